"""Common machinery for the /verif checks: scratch builds of the repository's working tree,
TLC runs, known-findings matching, violation reporting and evidence files.

Exit-status discipline (DESIGN 2.5): 0 = property held on everything explored,
1 = VIOLATION line printed, 2 = the machinery itself failed (never a VIOLATION).
"""
import atexit, hashlib, json, os, re, shutil, signal, subprocess, sys, tempfile, time

VERIF = os.path.dirname(os.path.dirname(os.path.dirname(os.path.abspath(__file__))))
REPO = os.environ.get("VERIF_REPO", "/repo")
SPEC = os.path.join(VERIF, "spec")
BUILD = os.path.join(VERIF, "build")          # /verif's own tools (setup_cmd), not the repo
EVID = os.environ.get("VERIF_EVID") or os.path.join(VERIF, "evidence")
TLA_CP = "/opt/veriftools/tla/tla2tools.jar:/opt/veriftools/tla/CommunityModules-deps.jar"
NCPU = os.cpu_count() or 4


class MachineryError(Exception):
    """The check could not do its job (build failed, TLC parse error...). Exit 2, never a VIOLATION."""


_T0 = time.time()


def log(*a):
    print("%6.1fs" % (time.time() - _T0), *a, file=sys.stderr, flush=True)


# --------------------------------------------------------------------------------------------
# scratch directories
# --------------------------------------------------------------------------------------------
_scratch_dirs = []


def _cleanup():
    for d in _scratch_dirs:
        shutil.rmtree(d, ignore_errors=True)


atexit.register(_cleanup)


def _sig(signum, frame):
    _cleanup()
    os._exit(2)


for _s in (signal.SIGTERM, signal.SIGINT, signal.SIGHUP):
    try:
        signal.signal(_s, _sig)
    except Exception:
        pass


def scratch(tag):
    base = os.environ.get("VERIF_TMP", "/tmp")
    d = tempfile.mkdtemp(prefix="verif.%s.%d." % (tag, os.getpid()), dir=base)
    _scratch_dirs.append(d)
    return d


# --------------------------------------------------------------------------------------------
# building the repository's current working tree
# --------------------------------------------------------------------------------------------
VARIANTS = {
    # name: (configure args, CFLAGS, CC)
    "prod": ([], "-g -O2", None),
    "nots": (["--disable-thread-safety"], "-g -O2", None),
    "asan": ([], "-g -O1 -fno-omit-frame-pointer -fsanitize=address,undefined -fno-sanitize-recover=undefined -Wno-error", None),
    "asan-nots": (["--disable-thread-safety"], "-g -O1 -fno-omit-frame-pointer -fsanitize=address,undefined -fno-sanitize-recover=undefined -Wno-error", None),
    "tsan": ([], "-g -O1 -fsanitize=thread -Wno-error -Wno-unknown-warning-option", "clang"),
    "everything": (["--enable-everything"], "-g -O2", None),
}


def copy_worktree(dst):
    """Copy tracked + untracked-but-not-ignored files of REPO's working tree (sources, no objects)."""
    os.makedirs(dst, exist_ok=True)
    files = subprocess.run(["git", "-C", REPO, "ls-files", "-co", "--exclude-standard", "-z"],
                           check=True, capture_output=True).stdout
    # deleted-in-worktree files are listed by ls-files -c; rsync --ignore-missing-args copes
    p = subprocess.run(["rsync", "-a", "--from0", "--files-from=-", "--ignore-missing-args", REPO + "/", dst + "/"],
                       input=files, capture_output=True)
    if p.returncode not in (0, 23, 24):
        raise MachineryError("rsync failed: %s" % p.stderr.decode()[-500:])


def build(variant="prod", tag="b", extra_conf=None, make_targets=None, with_tests=False, cwd_etc=False):
    """Return dict(root=, lib=, snoopyctl=, etc=, ini=) of a fresh scratch build of REPO's working tree."""
    t0 = time.time()
    conf, cflags, cc = VARIANTS[variant]
    root = scratch(tag + "." + variant)
    src = os.path.join(root, "src")
    copy_worktree(src)
    etc = os.path.join(root, "etc")
    os.makedirs(etc)
    # cwd_etc: the compile-time config path becomes /proc/self/cwd/etc/snoopy.ini, i.e. relative to the working
    # directory of whichever process loads the library -- parallel replay workers then each have a private snoopy.ini
    conf_etc = "/proc/self/cwd/etc" if cwd_etc else etc
    env = dict(os.environ)
    env.pop("MAKEFLAGS", None)
    logf = os.path.join(root, "build.log")
    with open(logf, "w") as lf:
        def run(cmd):
            r = subprocess.run(cmd, cwd=src, stdout=lf, stderr=subprocess.STDOUT, env=env)
            if r.returncode != 0:
                tail = open(logf, errors="replace").read()[-3000:]
                raise MachineryError("build step %s failed (variant %s):\n%s" % (cmd[0:2], variant, tail))
        run(["./bootstrap.sh"])
        cmd = ["./configure", "--sysconfdir=" + conf_etc, "--libdir=" + os.path.join(root, "instlib")] + conf + (extra_conf or [])
        cmd.append("CFLAGS=" + cflags)
        if cc:
            cmd.append("CC=" + cc)
        run(cmd)
        if with_tests:
            run(["make", "-j%d" % NCPU])
        else:
            # only what the checks need: the library, the static archives and snoopyctl
            run(["make", "-j%d" % NCPU, "-C", "lib"])
            run(["make", "-j%d" % NCPU, "-C", "src"])
    lib = os.path.join(src, "src/.libs/libsnoopy.so")
    if not os.path.exists(lib):
        raise MachineryError("libsnoopy.so missing after build")
    log("[build] %s variant in %.1fs at %s" % (variant, time.time() - t0, root))
    return dict(root=root, src=src, lib=lib, etc=etc, ini=os.path.join(etc, "snoopy.ini"),
                snoopyctl=os.path.join(src, "src/cli/snoopyctl"), variant=variant, cwd_etc=cwd_etc)


def ensure_tools():
    """/verif's own tools must have been built by setup_cmd; build them if missing."""
    r = subprocess.run(["make", "-s", "-C", os.path.join(VERIF, "harness")], capture_output=True, text=True)
    if r.returncode != 0:
        raise MachineryError("harness build failed: " + r.stdout[-2000:] + r.stderr[-2000:])


# --------------------------------------------------------------------------------------------
# TLC
# --------------------------------------------------------------------------------------------
class TlcResult:
    def __init__(self):
        self.generated = 0
        self.distinct = 0
        self.ok = False
        self.violated = None      # invariant / property name
        self.out = ""
        self.printed = []         # values printed with PrintT(<<"TAG", ...>>)
        self.coverage = {}
        self.wall = 0.0
        self.error = None


_TLA_STR = re.compile(r'"((?:[^"\\]|\\.)*)"')


def _untla(s):
    return s.replace('\\"', '"').replace("\\\\", "\\")


def run_tlc(module, cfg, workers=None, simulate=None, depth=None, seed=None, env=None, timeout=1100,
            coverage=False, heap="8g", expect_violation=False, deadlock=None, dfs=False, cwd=None, tag="OUT"):
    """Run TLC on spec/<module>.tla with spec/<cfg>. Returns TlcResult; raises MachineryError when TLC itself
    fails (parse error, evaluation error) -- a violated invariant is not a machinery error."""
    meta = scratch("tlc")
    cwd = cwd or SPEC
    cmd = ["java", "-XX:+UseParallelGC", "-Xmx" + heap]
    if dfs:
        cmd.append("-Dtlc2.tool.queue.IStateQueue=StateDeque")
    cmd += ["-cp", TLA_CP, "tlc2.TLC", "-metadir", meta, "-config", cfg, "-workers", str(workers or NCPU)]
    if simulate:
        cmd += ["-simulate", "num=%d" % simulate]
        if depth:
            cmd += ["-depth", str(depth)]
    if seed is not None and simulate:
        cmd += ["-seed", str(seed)]
    if coverage:
        cmd += ["-coverage", "1"]
    if deadlock is False:
        cmd += ["-deadlock"]
    cmd += ["-noGenerateSpecTE"]
    cmd.append(module)
    e = dict(os.environ)
    if env:
        e.update({k: str(v) for k, v in env.items()})
    t0 = time.time()
    try:
        if simulate:
            # a finished random walk keeps stuttering and prints itself again at every step: gigabytes of repeated lines. Stream the output and
            # keep one copy of each printed value instead of capturing everything
            class _P:
                pass
            p = _P()
            proc = subprocess.Popen(cmd, cwd=cwd, stdout=subprocess.PIPE, stderr=subprocess.STDOUT, text=True, env=e, errors="replace")
            kept, seen_out, deadline = [], set(), time.time() + (timeout or 10 ** 9)
            for line in proc.stdout:
                if line.startswith('<<"'):
                    hsh = hash(line)
                    if hsh in seen_out:
                        continue
                    seen_out.add(hsh)
                kept.append(line)
                if time.time() > deadline:
                    proc.kill()
                    shutil.rmtree(meta, ignore_errors=True)
                    raise MachineryError("TLC timed out on %s/%s" % (module, cfg))
            proc.wait()
            p.stdout, p.stderr, p.returncode = "".join(kept), "", proc.returncode
        else:
            p = subprocess.run(cmd, cwd=cwd, capture_output=True, text=True, env=e, timeout=timeout, errors="replace")
    except subprocess.TimeoutExpired:
        shutil.rmtree(meta, ignore_errors=True)
        raise MachineryError("TLC timed out on %s/%s" % (module, cfg))
    shutil.rmtree(meta, ignore_errors=True)
    r = TlcResult()
    r.wall = time.time() - t0
    r.out = p.stdout + p.stderr
    seen_lines = set()
    for line in p.stdout.splitlines():
        if line.startswith('<<"' + tag + '"'):
            if simulate:                                # a finished random walk keeps stuttering and prints itself again at every step
                if line in seen_lines:
                    continue
                seen_lines.add(line)
            m = _TLA_STR.findall(line)
            if len(m) >= 2:
                r.printed.append(_untla(m[1]))
    m = re.findall(r"(\d+) states generated, (\d+) distinct states found", p.stdout)
    if m:
        r.generated, r.distinct = int(m[-1][0]), int(m[-1][1])
    m = re.search(r"The number of states generated: (\d+)", p.stdout)
    if m and simulate:
        r.generated = int(m.group(1))
        r.distinct = r.distinct or 0
    m = re.search(r"Error: Invariant (\S+) is violated", p.stdout)
    if m:
        r.violated = m.group(1)
    m = re.search(r"Error: The invariant of (\S+) is equal to FALSE", p.stdout)
    if m and not r.violated:
        r.violated = m.group(1)
    m2 = re.search(r"Error: (Action property|Temporal properties|Assumption)[^\n]*", p.stdout)
    if not r.violated and m2:
        r.violated = m2.group(0)
    if "Error: Deadlock reached" in p.stdout:
        r.violated = "Deadlock"
    if coverage:
        for mm in re.finditer(r"<(\w+) line \d+, col \d+ to line \d+, col \d+ of module \w+>: (\d+):(\d+)", p.stdout):
            r.coverage[mm.group(1)] = (int(mm.group(2)), int(mm.group(3)))
    r.ok = ("Model checking completed. No error has been found" in p.stdout) or \
           (simulate and r.violated is None and "Error:" not in p.stdout)
    if not r.ok and r.violated is None:
        r.error = p.stdout[-4000:] + p.stderr[-2000:]
        raise MachineryError("TLC failed on %s/%s:\n%s" % (module, cfg, r.error))
    if expect_violation is None:
        log("[tlc] %s/%s: %d generated, %d distinct, %s in %.1fs" % (module, cfg, r.generated, r.distinct, "violated " + str(r.violated) if r.violated else "ok", r.wall))
        return r
    if r.violated and not expect_violation:
        raise MachineryError("specification %s/%s violates its own property %s -- the model is wrong, not the code:\n%s"
                             % (module, cfg, r.violated, p.stdout[-6000:]))
    if expect_violation and not r.violated:
        raise MachineryError("expected-violation config %s/%s found no violation (vacuity guard failed)" % (module, cfg))
    log("[tlc] %s/%s: %d generated, %d distinct, %s in %.1fs" % (module, cfg, r.generated, r.distinct,
        "violated " + str(r.violated) if r.violated else "ok", r.wall))
    return r


# --------------------------------------------------------------------------------------------
# known findings / violations / evidence
# --------------------------------------------------------------------------------------------
def load_known():
    known = []
    path = os.path.join(VERIF, "known_findings.txt")
    if os.path.exists(path):
        for line in open(path):
            line = line.strip()
            m = re.match(r"known:\s+property=(\S+)\s+sig=(\S+)\s*(.*)", line)
            if m:
                known.append((m.group(1), m.group(2), m.group(3)))
    return known


class Reporter:
    """Collects violations of one property; prints KNOWN-FINDING / VIOLATION lines; writes evidence."""

    def __init__(self, prop, tier, seed, level, silent=False):
        self.prop, self.tier, self.seed, self.level = prop, tier, seed, level
        self.silent = silent            # a helper reporter: collects, never prints or writes evidence
        self.t0 = time.time()
        self.known = [(s, d) for (p, s, d) in load_known() if p == prop]
        self.violations = []      # unlisted
        self.known_hits = {}
        self.cov = dict(states=0, transitions=0, traces_validated_against_impl=0, evaluations=0,
                        distinct_nontrivial=0, samples=[], rule="")
        self.assumptions = []
        self.drift = []
        self._seen_sigs = set()

    def tlc(self, r):
        self.cov["states"] += r.distinct
        self.cov["transitions"] += r.generated
        self.cov.setdefault("tlc_runs", []).append(dict(wall_s=round(r.wall, 1), generated=r.generated, distinct=r.distinct,
                                                        violated=r.violated))

    def sample(self, s, cap=6):
        if len(self.cov["samples"]) < cap:
            self.cov["samples"].append(s)

    def violation(self, sig, what, replay):
        """sig: stable structural signature of the failing input class / call site / history."""
        if self.silent:
            self.violations.append((sig, what, None))
            return True
        for ks, kd in self.known:
            if ks == sig:
                if sig not in self.known_hits:
                    self.known_hits[sig] = what
                    print("KNOWN-FINDING: property=%s %s (%s)" % (self.prop, what, sig), flush=True)
                return False
        if sig in self._seen_sigs and len(self.violations) >= 5:
            return True
        self._seen_sigs.add(sig)
        d = os.path.join(EVID, "replays", self.prop)
        os.makedirs(d, exist_ok=True)
        body = json.dumps(dict(property=self.prop, sig=sig, what=what, replay=replay), indent=1, default=repr)
        path = os.path.join(d, hashlib.sha1(body.encode()).hexdigest()[:12] + ".json")
        with open(path, "w") as f:
            f.write(body)
        self.violations.append((sig, what, path))
        if len(self.violations) <= 20:
            print("VIOLATION property=%s replay=%s" % (self.prop, path), flush=True)
            log("  -> %s: %s" % (sig, what))
        return True

    def finish(self):
        cov = self.cov
        cov["evaluations"] = max(cov["evaluations"], cov["traces_validated_against_impl"])
        if not cov["samples"]:
            cov["samples"] = ["(no behaviour was replayed)"]
        if self.drift:
            cov["impl_spec_drift"] = self.drift[:20]
        cov["known_findings_hit"] = sorted(self.known_hits)
        ev = dict(property_id=self.prop, tier=self.tier, seed=self.seed, level=self.level, coverage=cov,
                  assumptions=self.assumptions, wall_s=round(time.time() - self.t0, 2), violations=len(self.violations))
        os.makedirs(EVID, exist_ok=True)
        with open(os.path.join(EVID, self.prop + ".json"), "w") as f:
            json.dump(ev, f, indent=1, default=repr)
        log("[%s] %s tier: %d violations, %d known findings, %.1fs" % (self.prop, self.tier, len(self.violations),
                                                                        len(self.known_hits), time.time() - self.t0))
        return 1 if self.violations else 0


def main_wrapper(fn):
    """Run a check function; map MachineryError to exit 2."""
    try:
        rc = fn()
    except MachineryError as e:
        log("MACHINERY FAILURE: %s" % e)
        _cleanup()
        sys.exit(2)
    except Exception:
        import traceback
        log("MACHINERY FAILURE (unexpected exception in the check itself):\n" + traceback.format_exc())
        _cleanup()
        sys.exit(2)
    _cleanup()
    sys.exit(rc)
