"""Python side of harness/xdrv: script construction, execution against a scratch build, result parsing."""
import json, os, subprocess, tempfile
from . import common as c


def hx(b):
    if b is None:
        return "-"
    if isinstance(b, str):
        b = b.encode("latin-1")
    return b.hex() if b else "."


def unhx(s):
    return bytes.fromhex(s) if s else b""


class Script:
    def __init__(self):
        self.lines = []

    def add(self, *toks):
        self.lines.append(" ".join(str(t) for t in toks))
        return self

    def ini(self, content):
        return self.add("ini", hx(content))

    def path(self, p):
        return self.add("path", hx(p))

    def argv(self, v):
        return self.add("argv", "null") if v is None else self.add("argv", *[hx(x) for x in v])

    def envp(self, v):
        return self.add("envp", "null") if v is None else self.add("envp", *[hx(x) for x in v])

    def call(self, kind, label=""):
        return self.add("call", kind, label)

    def text(self):
        return "\n".join(self.lines) + "\n"


def run_script(build, script, workdir, tag="s", timeout=120, preload_extra=None, wrapper=None, env_extra=None):
    """Run one xdrv process over `script` against the production library of `build`. Returns list of parsed events."""
    os.makedirs(workdir, exist_ok=True)
    sp = os.path.join(workdir, tag + ".script")
    op = os.path.join(workdir, tag + ".out")
    with open(sp, "w") as f:
        f.write(script.text() if isinstance(script, Script) else script)
    if os.path.exists(op):
        os.unlink(op)
    pre = [build["lib"], os.path.join(c.BUILD, "librec.so")]
    if build["variant"].startswith("asan"):
        asan = subprocess.run(["gcc", "-print-file-name=libasan.so"], capture_output=True, text=True).stdout.strip()
        pre.insert(0, asan)
    if preload_extra:
        pre = preload_extra + pre
    env = {"PATH": "/usr/bin:/bin", "LD_PRELOAD": ":".join(pre), "XDRV_INI": build["ini"], "HOME": "/root", "LANG": "C",
           "TZ": "UTC", "ASAN_OPTIONS": "detect_leaks=0:abort_on_error=0:exitcode=77:log_path=" + os.path.join(workdir, tag + ".asan"),
           "UBSAN_OPTIONS": "print_stacktrace=1:halt_on_error=1:exitcode=78:log_path=" + os.path.join(workdir, tag + ".ubsan")}
    if env_extra:
        env.update(env_extra)
    cmd = (wrapper or []) + [os.path.join(c.BUILD, "xdrv"), sp, op]
    try:
        p = subprocess.run(cmd, env=env, capture_output=True, timeout=timeout, stdin=subprocess.DEVNULL)
        rc, err = p.returncode, p.stderr
    except subprocess.TimeoutExpired:
        rc, err = 997, b"timeout"
    evs = []
    if os.path.exists(op):
        for line in open(op, errors="replace"):
            line = line.strip()
            if line:
                try:
                    evs.append(json.loads(line))
                except ValueError:
                    evs.append({"ev": "garbled", "raw": line[:200]})
    return dict(rc=rc, stderr=err, events=evs, script=sp, out=op)
