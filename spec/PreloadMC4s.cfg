SPECIFICATION Spec
CONSTANTS
  MaxLines = 4
  MaxSteps = 3
  LineAlphabet <- LinesSmall
  DefectC18 = FALSE
  DefectC19 = FALSE
  AtomicWrite = TRUE
  TmpTrunc = TRUE
INVARIANTS TypeOK ImplRefinesContract Idempotent StatusAfterEnable ContractIdempotent RoundTrip DisableKeepsOthers OldOrNew
CHECK_DEADLOCK FALSE
