SPECIFICATION TSpec
CONSTANTS
  MaxLines = 0
  MaxSteps = 1
  LineAlphabet = {}
  DefectC18 = FALSE
  DefectC19 = FALSE
  AtomicWrite = TRUE
  TmpTrunc = TRUE
INVARIANTS Report
CHECK_DEADLOCK FALSE
