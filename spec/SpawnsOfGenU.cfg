SPECIFICATION Spec
CONSTANTS
  Names <- N6
  MaxDepth = 3
  MaxList = 2
  Selves <- S2
  PrefixPairs <- PP
  Unreadable <- U03
  Defects <- NoDefects
INVARIANTS Dump
CHECK_DEADLOCK FALSE
