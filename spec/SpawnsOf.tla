------------------------------ MODULE SpawnsOf ------------------------------
(* C15: exclude_spawns_of drops exactly the descendants of listed programs.                         *)
(* chain = names of the calling process's ancestors, parent first, top of the tree (ppid 0) last;     *)
(* self = the caller's own name; list = the filter argument split at commas ("" = empty item).        *)
(* CONTRACT: DROP iff some ancestor's name equals a non-empty list item; the caller itself never       *)
(* counts; with an unreadable ancestor at position u only a match strictly below u drops.              *)
(* IMPLEMENTATION-SHAPED: the /proc/<pid>/stat walk of src/filter/exclude_spawns_of.c, one action per   *)
(* ancestor, with DEFECT switches.                                                                    *)
EXTENDS Integers, Sequences, FiniteSets, TLC
CONSTANTS Names, MaxDepth, MaxList, Selves,
          PrefixPairs,      \* pairs <<a, b>> where name a is a proper prefix of name b
          Unreadable,       \* set of chain positions that may be unreadable (0 = none)
          Defects           \* subset of {"include_self", "parent_only", "hole_at_empty", "skip_top", "prefix_match", "drop_on_error"}
RECURSIVE SeqsOf(_, _)
SeqsOf(S, n) == IF n = 0 THEN {<<>>} ELSE LET P == SeqsOf(S, n-1) IN P \cup {Append(s, x) : s \in {p \in P : Len(p) = n-1}, x \in S}
Chains == {c \in SeqsOf(Names, MaxDepth) : Len(c) >= 1}
Lists  == {l \in SeqsOf(Names \cup {""}, MaxList) : Len(l) >= 1}
Items(l) == {l[i] : i \in 1..Len(l)} \ {""}
(* contract *)
Drop(chain, list, u) == \E i \in 1..Len(chain) : (u = 0 \/ i < u) /\ chain[i] \in Items(list)

VARIABLES chain, self, list, unread, pos, verdict
vars == <<chain, self, list, unread, pos, verdict>>
Init == /\ chain \in Chains /\ self \in Selves /\ list \in Lists
        /\ unread \in {u \in Unreadable : u <= Len(chain)}
        /\ pos = (IF "include_self" \in Defects THEN 0 ELSE 1) /\ verdict = "walking"
(* the array the implementation searches: with the "hole" defect items after an empty item are invisible *)
FirstEmpty(l) == LET S == {i \in 1..Len(l) : l[i] = ""} IN IF S = {} THEN Len(l) + 1 ELSE CHOOSE i \in S : \A j \in S : i <= j
Visible(l) == IF "hole_at_empty" \in Defects THEN {l[i] : i \in 1..(FirstEmpty(l) - 1)} ELSE Items(l)
Match(n, l) == n \in Visible(l) \/ ("prefix_match" \in Defects /\ \E x \in Visible(l) : <<x, n>> \in PrefixPairs)
NameAt(p) == IF p = 0 THEN self ELSE chain[p]
Walk == /\ verdict = "walking"
        /\ IF pos > Len(chain) \/ ("skip_top" \in Defects /\ pos = Len(chain)) \/ ("parent_only" \in Defects /\ pos > 1)
           THEN verdict' = "PASS" /\ UNCHANGED pos
           ELSE IF pos # 0 /\ pos = unread
                THEN verdict' = (IF "drop_on_error" \in Defects THEN "DROP" ELSE "PASS") /\ UNCHANGED pos      \* cannot read the tree: pass
                ELSE IF Match(NameAt(pos), list) THEN verdict' = "DROP" /\ UNCHANGED pos
                ELSE pos' = pos + 1 /\ UNCHANGED verdict
        /\ UNCHANGED <<chain, self, list, unread>>
Spec == Init /\ [][Walk]_vars
ImplExact == verdict \in {"PASS", "DROP"} => ((verdict = "DROP") = Drop(chain, list, unread))
SelfNeverCounts == verdict \in {"PASS", "DROP"} /\ (\A i \in 1..Len(chain) : chain[i] \notin Items(list)) => verdict = "PASS"
=============================================================================
