SPECIFICATION Spec
CONSTANTS
  Uids <- U4
  Gids <- G4
  MaxSteps = 6
INVARIANTS Dump
CHECK_DEADLOCK FALSE
