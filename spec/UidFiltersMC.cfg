SPECIFICATION Spec
CONSTANTS
  Callers <- AllCallers
  ListTokens <- Toks
  MaxLen = 4
  Defects <- NoDefects
INVARIANTS ImplExact Complement
CHECK_DEADLOCK FALSE
