----------------------------- MODULE SnoopyCall -----------------------------
(* One process using the preloaded library: a history of                                        *)
(*    RewriteConfig* ; Enter ; TsrmCtor ; CfgLoad ; StoreInputs ; FilterCheck ; Format ;         *)
(*    Dispatch ; Cleanup ; RealExec ; Return                                                     *)
(* (src/entrypoint/execve-wrapper.c, init-deinit.c, action/log-syscall-exec.c).  Serves          *)
(* C01 (exactly one untouched real exec, after logging, result passed through), C04 (exactly one  *)
(* faithful record / none), C06+C11 (nothing carried over between calls), C16 (no residue).       *)
(*                                                                                               *)
(* CONTRACT = the operators Expected*, Decision, Sink, Msg: what the properties state, as a       *)
(* function of (config file content at the time of the call, call inputs, result of the real     *)
(* exec).  IMPLEMENTATION-SHAPED layer = the state machine below, which carries the library's     *)
(* configuration record, the stored input pointers, the stdio buffer and the allocation count     *)
(* the way the C code does, with DEFECT switches re-creating the pre-fix code.                    *)
EXTENDS Integers, Sequences, FiniteSets, TLC

CONSTANTS Files,        \* config-file states: records shaped like Defaults (field state: "ok" | "absent" | "unreadable" | "garbage")
          Calls,        \* call inputs: [kind, path, argv, envp]
          Results,      \* outcomes of the real exec: "replaced" or an errno class name
          MaxCalls,
          ThreadSafe,   \* build with thread safety: per-call configuration record (TRUE) or one static record (FALSE)
          Defects       \* subset of {"carry_ints", "stdout_nobuf_flush", "exec_before_cleanup", "second_exec_on_error",
                        \*            "ids_not_reset", "leak_on_reassign"}

Defaults == [fmt |-> "default", chain |-> "none", out |-> "default", errlog |-> "default", dsmax |-> "default",
             logmax |-> "default", fac |-> "default", lvl |-> "default", ident |-> "default", dup |-> FALSE, state |-> "ok",
             sinkst |-> "ok", synerr |-> FALSE]
(* synerr: the file additionally contains a line that is a syntax error; its valid lines still apply *)
(* sinkst is not part of the file: it is the state of the configured destination ("ok" | "absent" | "full"),
   carried in the same record so that one constant enumerates the environment of a call *)
(* state: "ok" = a readable file with a [snoopy] section; "absent" / "unreadable" / "garbage": nothing usable *)
IsSpecial(f) == f.state # "ok"
Effective(f) == IF IsSpecial(f) THEN Defaults ELSE f         \* the documented reading of the file

-----------------------------------------------------------------------------
(* Contract *)
PassChains == {"none", "pass", "bogus", "pass;pass", "bogus;pass", "empty-elems"}
DropChains == {"drop", "pass;drop", "drop;pass", "drop;bogus"}
Decision(cfg) == IF cfg.chain \in DropChains THEN "DROP" ELSE "PASS"

(* which sink receives the record; "none" = nothing observable anywhere (devnull, noop, file without argument) *)
Sink(cfg) == CASE cfg.out \in {"default", "unknown", "devlog"} -> "devlog"
               [] cfg.out = "file"     -> "file"
               [] cfg.out = "filetpl"  -> "filetpl"      \* path template file:<dir>/t-%{snoopy_literal:x}.log
               [] cfg.out = "filefifo" -> "filefifo"     \* the file is a named pipe whose reader is slow: full when the record arrives, drained a little later
               [] cfg.out = "socket"   -> "sock"
               [] cfg.out = "socket107" -> "sock107"     \* socket path of the maximum length (107 bytes)
               [] cfg.out = "stdout"   -> "stdout"
               [] cfg.out = "stderr"   -> "stderr"
               [] cfg.out = "devtty"   -> "devtty"
               [] OTHER                -> "none"          \* devnull, noop, filenoarg, filebad (unopenable path)
Frame(cfg) == CASE Sink(cfg) \in {"file", "filetpl", "filefifo", "stdout", "stderr", "devtty"} -> "line"    \* message + newline
                [] Sink(cfg) \in {"sock", "sock107"} -> "dgram"                                              \* one datagram = message
                [] Sink(cfg) = "devlog" -> "syslog"                                             \* <pri>ident[pid]: message
                [] OTHER -> "none"

(* cmdline falls back to the path for a missing or empty argument vector *)
ArgvMissing(call) == call.argv \in {"a_null", "a_empty"}
CmdlinePiece(call) == IF ArgvMissing(call) THEN "PATH" ELSE "ARGV"
PieceEmpty(call, p) == \/ p = "PATH" /\ call.path = "p_empty"
                       \/ p = "ARGV" /\ call.argv = "a_emptystr"
(* message as a sequence of pieces the harness maps to bytes; each data-source piece is limited to dsmax *)
Msg(cfg, call) ==
    CASE cfg.fmt = "default" -> <<"DEFAULTPFX", CmdlinePiece(call)>>     \* compiled-in format ends in "]: %{cmdline}"
      [] cfg.fmt = "static"  -> <<"L:static text">>
      [] cfg.fmt = "cmdfile" -> <<"PATH", "L:|", CmdlinePiece(call), "L:|end">>
      [] cfg.fmt = "cmd"     -> <<CmdlinePiece(call)>>
      [] cfg.fmt = "empty"   -> <<>>
      [] cfg.fmt = "unknown" -> <<"L:a", "L:[ERROR: Data source 'nosuch' not found.]">>     \* text after it: either (see C05)
      [] cfg.fmt = "tid"     -> <<"L:t=", "TID", "L: n=", "NTHREADS">>
      [] OTHER -> <<"L:?">>
MsgEmpty(cfg, call) == \A i \in 1..Len(Msg(cfg, call)) : PieceEmpty(call, Msg(cfg, call)[i])

FacCode == [ auth |-> 32, authpriv |-> 80, cron |-> 72, daemon |-> 24, ftp |-> 88, kern |-> 0, local0 |-> 128, local1 |-> 136,
             local2 |-> 144, local3 |-> 152, local4 |-> 160, local5 |-> 168, local6 |-> 176, local7 |-> 184, lpr |-> 48,
             mail |-> 16, news |-> 56, syslog |-> 40, user |-> 8, uucp |-> 64, default |-> 80 ]     \* <sys/syslog.h>: (n << 3)
LvlCode == [ emerg |-> 0, alert |-> 1, crit |-> 2, err |-> 3, warning |-> 4, notice |-> 5, info |-> 6, debug |-> 7, default |-> 6 ]
Pri(cfg) == FacCode[cfg.fac] + LvlCode[cfg.lvl]          \* facility | level: facilities are multiples of 8

ExpectedRecords(file, call) ==
    LET cfg == Effective(file) IN
    IF Decision(cfg) = "DROP" \/ MsgEmpty(cfg, call) \/ Sink(cfg) = "none" \/ file.sinkst # "ok" THEN <<>>
    ELSE << [sink |-> Sink(cfg), frame |-> Frame(cfg), msg |-> Msg(cfg, call), dsmax |-> cfg.dsmax, logmax |-> cfg.logmax,
             pri |-> Pri(cfg), ident |-> cfg.ident] >>

-----------------------------------------------------------------------------
(* Implementation-shaped state machine *)
VARIABLES file,       \* config file on disk
          pc,         \* "idle" | "entered" | "tsrm" | "loaded" | "stored" | "passed" | "dropped" | "formatted" | "dispatched"
                      \*        | "cleaned" | "execd"
          call,       \* inputs of the call in progress
          libcfg,     \* the library's configuration record as this call sees it
          carried,    \* what the static record still holds between calls (non-thread-safe build)
          ids,        \* the stored input "pointers": the call whose inputs data sources would read
          message,    \* formatted message (pieces), limits in force
          osSeen,     \* records handed to the operating system during this call (sequence)
          stdio,      \* records still sitting in a stdio buffer of the process
          realCalls,  \* real-exec invocations of this call: sequence of [call, cleaned]
          live,       \* library-owned heap allocations
          ncalls, hist
vars == <<file, pc, call, libcfg, carried, ids, message, osSeen, stdio, realCalls, live, ncalls, hist>>

NoCall == [kind |-> "none", path |-> "none", argv |-> "none", envp |-> "none"]
IntOpts == {"errlog", "dsmax", "logmax", "fac", "lvl"}

Init == /\ file \in Files /\ pc = "idle" /\ call = NoCall /\ libcfg = Defaults /\ carried = Defaults /\ ids = NoCall
        /\ message = <<>> /\ osSeen = <<>> /\ stdio = <<>> /\ realCalls = <<>> /\ live = 0 /\ ncalls = 0 /\ hist = <<>>

RewriteConfig(f) == /\ pc = "idle" /\ file' = f /\ f # file
                    /\ UNCHANGED <<pc, call, libcfg, carried, ids, message, osSeen, stdio, realCalls, live, ncalls, hist>>

Enter(c) == /\ pc = "idle" /\ ncalls < MaxCalls
            /\ pc' = "entered" /\ call' = c /\ osSeen' = <<>> /\ realCalls' = <<>> /\ message' = <<>>
            /\ UNCHANGED <<file, libcfg, carried, ids, stdio, live, ncalls, hist>>

(* snoopy_tsrm_ctor: thread-safe build allocates node + thread data + configuration + input storage *)
TsrmCtor == /\ pc = "entered" /\ pc' = "tsrm"
            /\ live' = IF ThreadSafe THEN live + 4 ELSE live
            /\ UNCHANGED <<file, call, libcfg, carried, ids, message, osSeen, stdio, realCalls, ncalls, hist>>

(* snoopy_configuration_ctor: record starts from defaults (fresh per call when thread-safe; otherwise from whatever the
   static record still holds) and the file is parsed over it *)
CfgLoad == /\ pc = "tsrm" /\ pc' = "loaded"
           /\ LET base == IF ThreadSafe THEN Defaults ELSE carried IN
              /\ libcfg' = IF IsSpecial(file) THEN base
                           ELSE [k \in DOMAIN Defaults |-> IF k \in IntOpts /\ file[k] = "default" THEN base[k] ELSE file[k]]
              /\ live' = live + (IF IsSpecial(file) THEN 0 ELSE (IF file.dup /\ "leak_on_reassign" \in Defects THEN 2 ELSE 1))
           /\ UNCHANGED <<file, call, carried, ids, message, osSeen, stdio, realCalls, ncalls, hist>>

StoreInputs == /\ pc = "loaded" /\ pc' = "stored" /\ ids' = call
               /\ UNCHANGED <<file, call, libcfg, carried, message, osSeen, stdio, realCalls, live, ncalls, hist>>

FilterCheck == /\ pc = "stored" /\ pc' = (IF Decision(libcfg) = "DROP" THEN "dropped" ELSE "passed")
               /\ UNCHANGED <<file, call, libcfg, carried, ids, message, osSeen, stdio, realCalls, live, ncalls, hist>>

(* snoopy_message_generateFromFormat reads the inputs through the stored pointers and the limits from libcfg *)
Format == /\ pc = "passed" /\ pc' = "formatted"
          /\ message' = [msg |-> Msg(libcfg, ids), dsmax |-> libcfg.dsmax, logmax |-> libcfg.logmax, empty |-> MsgEmpty(libcfg, ids)]
          /\ live' = live + 2                        \* log message buffer + data source buffer
          /\ UNCHANGED <<file, call, libcfg, carried, ids, osSeen, stdio, realCalls, ncalls, hist>>

Dispatch == /\ pc = "formatted" /\ pc' = "dispatched"
            /\ LET rec == [sink |-> Sink(libcfg), frame |-> Frame(libcfg), msg |-> message.msg, dsmax |-> message.dsmax,
                           logmax |-> message.logmax, pri |-> Pri(libcfg), ident |-> libcfg.ident] IN
               IF message.empty \/ Sink(libcfg) = "none" \/ file.sinkst # "ok" THEN UNCHANGED <<osSeen, stdio>>   \* open/connect/send fails
               ELSE IF Sink(libcfg) = "stdout" /\ "stdout_nobuf_flush" \in Defects
                    THEN stdio' = Append(stdio, rec) /\ UNCHANGED osSeen          \* fprintf without fflush: still in the process
                    ELSE osSeen' = Append(osSeen, rec) /\ UNCHANGED stdio
            /\ live' = live - 2
            /\ UNCHANGED <<file, call, libcfg, carried, ids, message, realCalls, ncalls, hist>>

(* snoopy_cleanup: inputdatastorage_dtor, configuration_dtor, tsrm_dtor *)
Cleanup == /\ pc \in {"dropped", "dispatched"} /\ pc' = "cleaned"
           /\ ids' = IF "ids_not_reset" \in Defects THEN ids ELSE NoCall
           /\ carried' = IF ThreadSafe THEN Defaults
                         ELSE IF "carry_ints" \in Defects
                              THEN [k \in DOMAIN Defaults |-> IF k \in IntOpts THEN libcfg[k] ELSE Defaults[k]]
                              ELSE Defaults
           /\ libcfg' = Defaults
           /\ live' = live - (IF IsSpecial(file) THEN 0 ELSE 1) - (IF ThreadSafe THEN 4 ELSE 0)
           /\ UNCHANGED <<file, call, message, osSeen, stdio, realCalls, ncalls, hist>>

(* the real exec: the function found with dlsym(RTLD_NEXT) is called with (filename, argv[, envp]) *)
RealExec(r) == /\ \/ pc = "cleaned"
                  \/ "exec_before_cleanup" \in Defects /\ pc \in {"dropped", "dispatched"}
               /\ (r = "replaced" => call.path # "p_empty")                 \* an empty path cannot be executed
               /\ realCalls' = Append(realCalls, [inputs |-> call, cleaned |-> pc = "cleaned"])
               /\ pc' = "execd"
               /\ stdio' = IF r = "replaced" THEN <<>> ELSE stdio            \* a replaced image loses its stdio buffers
               /\ hist' = Append(hist, [file |-> file, call |-> call, result |-> r,
                                        expect |-> ExpectedRecords(file, call), seen |-> osSeen])
               /\ ncalls' = ncalls + 1
               /\ UNCHANGED <<file, call, libcfg, carried, ids, message, osSeen, live>>

Return == /\ pc = "execd" /\ pc' = "idle" /\ call' = NoCall
          /\ UNCHANGED <<file, libcfg, carried, ids, message, osSeen, stdio, realCalls, live, ncalls, hist>>

Next == \/ \E f \in Files : RewriteConfig(f)
        \/ \E c \in Calls : Enter(c)
        \/ TsrmCtor \/ CfgLoad \/ StoreInputs \/ FilterCheck \/ Format \/ Dispatch \/ Cleanup
        \/ \E r \in Results : RealExec(r)
        \/ Return
Spec == Init /\ [][Next]_vars

-----------------------------------------------------------------------------
(* Properties *)
(* C01 *)
ExactlyOnce  == pc = "execd" => Len(realCalls) = 1
AfterLogging == \A i \in 1..Len(realCalls) : realCalls[i].cleaned
Untouched    == pc = "execd" => \A i \in 1..Len(realCalls) : realCalls[i].inputs = call
(* C04: at the instant of the real exec the OS has received exactly the expected records *)
OneFaithfulRecord == pc = "execd" => osSeen = ExpectedRecords(file, call)
(* C06 / C11 / C16: nothing survives a call *)
ResetInvariant == pc = "idle" => libcfg = Defaults /\ carried = Defaults /\ ids = NoCall /\ live = 0
NoResidueAtExec == pc = "execd" => live = 0
=============================================================================
