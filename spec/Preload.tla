------------------------------- MODULE Preload -------------------------------
(* State machine over the operators of PreloadDefs: command histories on one preload file,      *)
(* executed one system call at a time so that a crash can strike between any two (C20).         *)
EXTENDS PreloadDefs
-----------------------------------------------------------------------------
(* State machine: a history of commands on one file, executed by the implementation-shaped
   layer one SYSTEM CALL at a time so that a crash can strike between any two (C20).           *)
VARIABLES disk,      \* content of ld.so.preload
          tmp,       \* content of the temporary file of the atomic protocol (Absent when none)
          pc,        \* "idle" | "trunc" | "written" | "tmpopen" | "tmpwritten" | "tmpsynced" | "dead"
          cmd,       \* command in progress: [name, old, new, exit]
          exit,      \* exit status of the last finished command (-1 none)
          out,       \* last status report
          hist       \* finished commands, for behaviour generation: <<[c, exit, disk]...>>
vars == <<disk, tmp, pc, cmd, exit, out, hist>>

RECURSIVE SeqsUpTo(_)
SeqsUpTo(n) == IF n = 0 THEN {<<>>}
               ELSE LET P == SeqsUpTo(n-1) IN P \cup {Append(s, l) : s \in {p \in P : Len(p) = n-1}, l \in LineAlphabet}
InitialFiles == {Absent} \cup {f \in {MkFile(ls, b) : ls \in SeqsUpTo(MaxLines), b \in BOOLEAN} : Canonical(f)}

NoCmd == [name |-> "none", old |-> Absent, new |-> Absent, exit |-> 0]

(* a temporary may already lie around when the modelled window starts (an earlier run killed while the file had other content) *)
StaleTmp == MkFile(<< <<"FOR2">>, <<"HASH", "TXT">>, <<"FOR2">>, <<"FOR2">>, <<"FOR2">> >>, TRUE)
Init == /\ disk \in InitialFiles
        /\ tmp \in {Absent, StaleTmp} /\ pc = "idle" /\ cmd = NoCmd /\ exit = -1 /\ out = "none"
        /\ hist = << [c |-> "init", exit |-> 0, disk |-> disk, out |-> IF tmp = Absent THEN "none" ELSE "stale-tmp"] >>

Finish(c, newdisk) ==
    /\ pc' = "idle" /\ cmd' = NoCmd /\ exit' = c.exit /\ disk' = newdisk /\ tmp' = Absent
    /\ hist' = Append(hist, [c |-> c.name, exit |-> c.exit, disk |-> newdisk, out |-> out])

Start(name, r) ==
    /\ pc = "idle" /\ Len(hist) <= MaxSteps
    /\ LET c == [name |-> name, old |-> disk, new |-> r.file, exit |-> r.exit] IN
       IF ~r.wrote
       THEN Finish(c, disk) /\ UNCHANGED out
       ELSE /\ cmd' = c /\ UNCHANGED <<disk, tmp, exit, out, hist>>
            /\ pc' = IF AtomicWrite THEN "tmpstart" ELSE "start"

Enable  == Start("enable",  ImplEnable(disk))
Disable == Start("disable", ImplDisable(disk))
Status  == /\ pc = "idle" /\ Len(hist) <= MaxSteps
           /\ out' = ImplStatus(disk)
           /\ hist' = Append(hist, [c |-> "status", exit |-> 0, disk |-> disk, out |-> ImplStatus(disk)])
           /\ UNCHANGED <<disk, tmp, pc, cmd, exit>>

(* pre-fix protocol: fopen("w+") truncates; fprintf + fclose write the whole content *)
TruncOpen  == pc = "start"   /\ disk' = Empty   /\ pc' = "trunc"   /\ UNCHANGED <<tmp, cmd, exit, out, hist>>
TruncWrite == pc = "trunc"   /\ Finish(cmd, cmd.new) /\ UNCHANGED out
(* repaired protocol: open tmp, write, fsync, close, rename *)
(* a temporary left behind by an earlier, killed run (Restart below) must not matter: the open truncates it. Without truncation the new content *)
(* only overwrites the beginning and the stale tail survives (Overlay, line-level)                                                              *)
Overlay(new, stale) ==
    IF stale = Absent \/ new = Absent \/ Len(stale.lines) <= Len(new.lines) THEN new
    ELSE MkFile(new.lines \o SubSeq(stale.lines, Len(new.lines) + 1, Len(stale.lines)), stale.nl)
TmpOpen    == pc = "tmpstart"   /\ tmp' = (IF TmpTrunc \/ tmp = Absent THEN Empty ELSE tmp) /\ pc' = "tmpopen" /\ UNCHANGED <<disk, cmd, exit, out, hist>>
TmpWrite   == pc = "tmpopen"    /\ tmp' = (IF TmpTrunc THEN cmd.new ELSE Overlay(cmd.new, tmp)) /\ pc' = "tmpwritten" /\ UNCHANGED <<disk, cmd, exit, out, hist>>
TmpSync    == pc = "tmpwritten" /\ pc' = "tmpsynced" /\ UNCHANGED <<disk, tmp, cmd, exit, out, hist>>
Rename     == pc = "tmpsynced"  /\ Finish(cmd, tmp) /\ UNCHANGED out
(* the process is killed, or a write-type call fails and the command gives up *)
Crash      == pc \notin {"idle", "dead"} /\ pc' = "dead" /\ UNCHANGED <<disk, tmp, cmd, exit, out, hist>>

(* after a crash the administrator simply runs the tool again: whatever the killed run left (disk, stale temporary) is the new starting point *)
Restart    == pc = "dead" /\ pc' = "idle" /\ cmd' = NoCmd /\ UNCHANGED <<disk, tmp, exit, out, hist>>

Next == Enable \/ Disable \/ Status \/ TruncOpen \/ TruncWrite \/ TmpOpen \/ TmpWrite \/ TmpSync \/ Rename \/ Crash \/ Restart
Spec == Init /\ [][Next]_vars

-----------------------------------------------------------------------------
(* Properties *)
TypeOK == Canonical(disk) /\ Canonical(tmp)

(* Impl => Contract, evaluated on every reachable file *)
ImplRefinesContract ==
    pc = "idle" =>
      /\ LET r == ImplEnable(disk)  IN EnableOK(disk, r.file, r.exit)
      /\ LET r == ImplDisable(disk) IN DisableOK(disk, r.file, r.exit)
      /\ StatusOK(disk, ImplStatus(disk))

(* C18: enabling twice equals enabling once; afterwards status reports the entry as present *)
Idempotent ==
    pc = "idle" => LET r == ImplEnable(disk) IN
        r.exit = 0 => LET r2 == ImplEnable(r.file) IN r2.file = r.file /\ r2.exit = 0
StatusAfterEnable ==
    pc = "idle" => LET r == ImplEnable(disk) IN
        (r.exit = 0 /\ Cardinality(MentionLines(Content(r.file))) = 1) => ImplStatus(r.file) = "present"
(* contract-level versions: hold for EVERY implementation that satisfies the contract *)
ContractIdempotent ==
    pc = "idle" => LET o == Content(disk) IN
        LET n == IF HasOwn(o) THEN disk ELSE Appended(disk) IN
        (HasOwn(o) \/ ~HasForeign(o)) =>
            /\ EnableOK(disk, n, 0)
            /\ \A x \in {n, Appended(n)} : \A e \in {0, 127} : EnableOK(n, x, e) => x = n

(* C19: disable right after enable restores the content *)
NoMention(f) == \A i \in 1..Len(f.lines) : ~Mentions(f.lines[i])
RoundTrip ==
    pc = "idle" => LET o == Content(disk) IN
        (NoMention(o) /\ (o.lines = <<>> \/ o.nl)) =>
            LET e == ImplEnable(disk) IN LET d == ImplDisable(e.file) IN
            e.exit = 0 /\ d.exit = 0 /\ Content(d.file) = o
(* every library token other than the removed entry survives a disable, in order *)
RECURSIVE AllLibs(_)
AllLibs(ls) == IF ls = <<>> THEN <<>> ELSE Libs(Head(ls)) \o AllLibs(Tail(ls))
RECURSIVE RemoveFirst(_, _)
RemoveFirst(s, a) == IF s = <<>> THEN <<>> ELSE IF Head(s) = a THEN Tail(s) ELSE <<Head(s)>> \o RemoveFirst(Tail(s), a)
DisableKeepsOthers ==
    pc = "idle" => LET o == Content(disk) IN LET d == ImplDisable(disk) IN
        AllLibs(Content(d.file).lines) \in {AllLibs(o.lines), RemoveFirst(AllLibs(o.lines), "OWN")}

(* every finished command of the history satisfies the contract with respect to the file it started from -- also when it ran after a crash, *)
(* with a stale temporary lying around                                                                                                       *)
HistoryRefinesContract ==
    \A i \in 2..Len(hist) :
        LET r == hist[i]  before == hist[i-1].disk IN
        /\ r.c = "enable"  => EnableOK(before, r.disk, r.exit)
        /\ r.c = "disable" => DisableOK(before, r.disk, r.exit)
(* C20: in every state -- also after a crash -- the file holds the complete old or new content *)
OldOrNew == pc # "idle" => Content(disk) \in {Content(cmd.old), Content(cmd.new)}
=============================================================================
