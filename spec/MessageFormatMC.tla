--------------------------- MODULE MessageFormatMC ---------------------------
EXTENDS MessageFormat, Json
Pos(S) == {x \in S : x >= 1 /\ x <= SrcCap}
LitLens    == Pos({1, 5, D-1, D, D+1, D+2, M-D-1, M-D, M-1, M, M+1})
EnvOuts    == {x \in {0, 1, D-1, D, D+1, D+2, M-1, M, M+1, 3*D} : x >= 0}
LitArgLens == {0, 1, 83, 84, 85, 86, 400, 900}
NameLens   == {6, 96, 97, 98, 150}
TokensFull ==
    {[t |-> "lit", n |-> n] : n \in LitLens}
    \cup {[t |-> "ds", kind |-> "env", tag |-> 6, out |-> o] : o \in EnvOuts}
    \cup {[t |-> "ds", kind |-> "literal", tag |-> 15 + a, out |-> a] : a \in LitArgLens}
    \cup {[t |-> "fail"]}
    \cup {[t |-> "unknown", name |-> n, tag |-> n] : n \in NameLens \cup {0}}
    \cup {[t |-> "unknown", name |-> 6, tag |-> 27]}
    \cup {[t |-> "unterminated", n |-> n] : n \in {0, 5}}
TokensSmall ==
    {[t |-> "lit", n |-> n] : n \in Pos({1, D, M-D, M})}
    \cup {[t |-> "ds", kind |-> "env", tag |-> 6, out |-> o] : o \in {0, D, D+1, M}}
    \cup {[t |-> "ds", kind |-> "literal", tag |-> 15 + a, out |-> a] : a \in {84, 85}}
    \cup {[t |-> "fail"], [t |-> "unknown", name |-> 6, tag |-> 6], [t |-> "unterminated", n |-> 0]}
(* templates for file names: everything short *)
TokensPath ==
    {[t |-> "lit", n |-> n] : n \in {1, 40}}
    \cup {[t |-> "ds", kind |-> "env", tag |-> 6, out |-> o] : o \in {1, 60}}
    \cup {[t |-> "ds", kind |-> "literal", tag |-> 15 + a, out |-> a] : a \in {1, 50}}
    \cup {[t |-> "fail"], [t |-> "unknown", name |-> 6, tag |-> 6], [t |-> "unterminated", n |-> 0]}
(* path templates whose data-source value is a long directory name: the template's own fixed limit (PATH_MAX) applies, not the configured *)
(* datasource_message_max_length (values just below, at and above 255 and 2047, the minimum and default of that option)                 *)
TokensPathDir ==
    {[t |-> "lit", n |-> 6]}
    \cup {[t |-> "ds", kind |-> "env", tag |-> 6, out |-> o] : o \in {200, 254, 255, 256, 300, 2046, 2047, 2048, 2100, 3000, 4000}}
NoDefects == {}
DefAppend == {"append_off_by_one"}
DefDs     == {"ds_plus_one"}
DefLit    == {"lit_via_dsbuf", "ds_plus_one"}
DefTag    == {"tag_buf_100"}
Dump == hist # <<>> => PrintT(<<"OUT", ToJson(hist[1])>>)
=============================================================================
