SPECIFICATION Spec
CONSTANTS
  Threads <- T2
  NCalls = 2
  Sections <- Sec7
  MaxPreempt = 99
  MinListAtFork = 0
  Forkers <- NoFork
  AtFork = "locked"
  Defects <- NoDefects
INVARIANTS OneEntryPerThread CountMatches Isolation Quiescent CountSane NoDeadlock
VIEW View
CHECK_DEADLOCK FALSE
