------------------------------- MODULE PreloadDefs -------------------------------
(* snoopyctl enable / disable / status on ld.so.preload  (properties C18, C19, C20).             *)
(*                                                                                              *)
(* The preload file is modelled as a sequence of lines, each line a sequence of ATOMS (tokens   *)
(* the harness maps to concrete bytes), plus the flag "the last line is newline-terminated".    *)
(* Two layers (DESIGN 2.2):                                                                      *)
(*   - the CONTRACT  (EnableOK / DisableOK / StatusOK): exactly what C18/C19 state, permissive   *)
(*     where they are silent.  Only the contract can raise a violation.                          *)
(*   - the IMPLEMENTATION-SHAPED layer (ImplEnable / ImplDisable / ImplStatus and the write      *)
(*     protocol with crash points): mirrors src/cli/*.c; TLC checks Impl => Contract.            *)
EXTENDS Integers, Sequences, FiniteSets, TLC

CONSTANTS MaxLines,        \* initial files have at most this many lines
          MaxSteps,        \* length of the explored command histories
          LineAlphabet,    \* set of lines (sequences of atoms) initial files are built from
          DefectC18,       \* TRUE: model the bounded backward scan of findNonCommentLineContainingString (pre-fix code)
          DefectC19,       \* TRUE: disable removes the whole line even when other entries share it (pre-fix code)
          AtomicWrite,     \* TRUE: write protocol is tmp+rename; FALSE: truncate-then-write (pre-fix code)
          TmpTrunc         \* TRUE: the temporary is opened with truncation; FALSE: a stale temporary's tail survives (seeded defect)

Atoms == {"OWN", "SP", "TAB", "HASH", "FOR", "FOR2", "FSN", "PFX", "SFX", "TXT", "MEN", "CR"}
(* OWN  = the library's own path            FOR/FOR2 = paths of other libraries                  *)
(* FSN  = a different path ending in libsnoopy.so        PFX = own path followed by ".1"          *)
(* SFX  = "/x" followed by own path         MEN = the bare text "libsnoopy.so"   TXT = other text *)

LibAtom(a)     == a \in {"OWN", "FOR", "FOR2", "FSN", "PFX", "SFX"}
MentionAtom(a) == a \in {"OWN", "FSN", "PFX", "SFX", "MEN"}      \* bytes contain "libsnoopy.so"
White(a)       == a \in {"SP", "TAB"}

Absent == [present |-> FALSE, lines |-> <<>>, nl |-> FALSE]
Empty  == [present |-> TRUE,  lines |-> <<>>, nl |-> FALSE]
MkFile(ls, nl) == [present |-> TRUE, lines |-> ls, nl |-> IF ls = <<>> THEN FALSE ELSE nl]
Canonical(f) == /\ (f.lines = <<>> => ~f.nl)
                /\ (f.lines # <<>> /\ ~f.nl => f.lines[Len(f.lines)] # <<>>)
                /\ (~f.present => f.lines = <<>>)
Content(f) == IF f.present THEN f ELSE Empty       \* an absent file reads as an empty one

-----------------------------------------------------------------------------
(* Definitions taken from the statement of C18/C19                                              *)
IsComment(l)     == Len(l) > 0 /\ l[1] = "HASH"
Mentions(l)      == \E i \in 1..Len(l) : MentionAtom(l[i])
ActiveMention(l) == ~IsComment(l) /\ Mentions(l)
ActiveOwn(l)     == Len(l) >= 1 /\ l[1] = "OWN" /\ (Len(l) = 1 \/ l[2] \in {"HASH", "SP", "TAB"})

HasOwn(f)     == \E i \in 1..Len(f.lines) : ActiveOwn(f.lines[i])
HasForeign(f) == \E i \in 1..Len(f.lines) : ActiveMention(f.lines[i]) /\ ~ActiveOwn(f.lines[i])
MentionLines(f) == {i \in 1..Len(f.lines) : ActiveMention(f.lines[i])}
OwnLines(f)     == {i \in 1..Len(f.lines) : ActiveOwn(f.lines[i])}

RECURSIVE BeforeHash(_)
BeforeHash(l) == IF l = <<>> \/ Head(l) = "HASH" THEN <<>> ELSE <<Head(l)>> \o BeforeHash(Tail(l))
Libs(l) == SelectSeq(BeforeHash(l), LibAtom)            \* library tokens of a line, in order
AtomSet(l) == {l[i] : i \in 1..Len(l)}

Appended(f) == MkFile(Content(f).lines \o << <<"OWN">> >>, TRUE)

(* ---- C18: enable ---- *)
EnableOK(old, new, exit) ==
    LET o == Content(old) IN
    IF HasOwn(o)          THEN new = old /\ (exit = 0 \/ HasForeign(o))
    ELSE IF HasForeign(o) THEN new = old /\ exit # 0
    ELSE new = Appended(old) /\ exit = 0

(* ---- status, as far as C18 constrains it ---- *)
StatusOK(f, out) ==
    LET o == Content(f) IN
    /\ (HasOwn(o) /\ Cardinality(MentionLines(o)) = 1 => out = "present")
    /\ (~HasOwn(o) => out # "present")

(* ---- C19: disable ---- *)
(* what may stand in place of the entry's line (None = the line and its newline are gone) *)
None == <<"__none__">>
ReplacementOK(line, repl) ==
    LET rest == Tail(line) IN
    IF rest = <<>> THEN repl = None                               \* entry alone: the line goes (round trip)
    ELSE IF Libs(rest) = <<>> THEN                                \* only whitespace / comment follows
         \/ repl = None
         \/ repl # None /\ Libs(repl) = <<>> /\ AtomSet(repl) \subseteq AtomSet(rest)
    ELSE repl # None /\ Libs(repl) = Libs(rest) /\ AtomSet(repl) \subseteq AtomSet(rest)

RemoveAt(ls, i)      == SubSeq(ls, 1, i-1) \o SubSeq(ls, i+1, Len(ls))
ReplaceAt(ls, i, l)  == SubSeq(ls, 1, i-1) \o <<l>> \o SubSeq(ls, i+1, Len(ls))

(* new is old with the entry on line i removed, everything else byte for byte *)
RemovedOK(o, new, i) ==
    /\ new.present
    /\ \/ /\ ReplacementOK(o.lines[i], None)
          /\ new.lines = RemoveAt(o.lines, i)
          /\ new.nl = (IF new.lines = <<>> THEN FALSE ELSE IF i = Len(o.lines) THEN TRUE ELSE o.nl)
       \/ /\ Len(new.lines) = Len(o.lines)
          /\ new.lines = ReplaceAt(o.lines, i, new.lines[i])
          /\ ReplacementOK(o.lines[i], new.lines[i])
          /\ (i # Len(o.lines) => new.nl = o.nl)

DisableOK(old, new, exit) ==
    LET o == Content(old) IN
    IF OwnLines(o) = {} THEN new = old /\ (exit = 0 \/ Cardinality(MentionLines(o)) >= 2)
    ELSE IF Cardinality(MentionLines(o)) >= 2
         THEN \/ new = old /\ exit # 0                             \* refuses on duplicate active entries
              \/ exit = 0 /\ \E i \in OwnLines(o) : RemovedOK(o, new, i)
    ELSE exit = 0 /\ \E i \in OwnLines(o) : RemovedOK(o, new, i)

-----------------------------------------------------------------------------
(* Implementation-shaped layer: src/cli/cli-subroutines.c, action-enable.c, action-disable.c    *)

(* etcLdSoPreload_findEntry: first line that starts with the own path followed by end/NL/#/SP/TAB.
   strstr(own) also matches inside PFX (at its start: then the next byte is '.') and inside SFX
   (never at line start), so neither qualifies. *)
ImplFindEntry(ls) == LET S == {i \in 1..Len(ls) : ActiveOwn(ls[i])} IN
                     IF S = {} THEN 0 ELSE CHOOSE i \in S : \A j \in S : i <= j

NMentions(l) == Cardinality({i \in 1..Len(l) : MentionAtom(l[i])})
(* etcLdSoPreload_findNonCommentLineContainingString, searching lines from..Len.
   Pre-fix: the backward scan for the line start is bounded by the *search position*, which sits
   just after the previous hit; a second mention on the same comment line is then judged by the
   byte following the first mention, which is not '#', so the comment counts as active. *)
ImplActive(l) == Mentions(l) /\ (~IsComment(l) \/ (DefectC18 /\ NMentions(l) >= 2))
ImplFindNonComment(ls, from) == LET S == {i \in from..Len(ls) : ImplActive(ls[i])} IN
                                IF S = {} THEN 0 ELSE CHOOSE i \in S : \A j \in S : i <= j

ImplEnable(old) ==
    LET o == Content(old) IN
    IF ImplFindEntry(o.lines) # 0 THEN [file |-> old, exit |-> 0, wrote |-> FALSE]
    ELSE IF ImplFindNonComment(o.lines, 1) # 0 THEN [file |-> old, exit |-> 127, wrote |-> FALSE]
    ELSE [file |-> Appended(old), exit |-> 0, wrote |-> TRUE]

RECURSIVE DropWhite(_)
DropWhite(l) == IF l # <<>> /\ White(Head(l)) THEN DropWhite(Tail(l)) ELSE l

ImplDisable(old) ==
    LET o  == Content(old)
        m1 == ImplFindNonComment(o.lines, 1)
        m2 == IF m1 = 0 THEN 0 ELSE ImplFindNonComment(o.lines, m1 + 1)
        e  == ImplFindEntry(o.lines)
    IN  IF m2 # 0 THEN [file |-> old, exit |-> 127, wrote |-> FALSE]
        ELSE IF e = 0 THEN [file |-> old, exit |-> 0, wrote |-> FALSE]
        ELSE LET rest == DropWhite(Tail(o.lines[e]))
                 keep == ~DefectC19 /\ Libs(rest) # <<>>
                 nls  == IF keep THEN ReplaceAt(o.lines, e, rest) ELSE RemoveAt(o.lines, e)
                 nnl  == IF nls = <<>> THEN FALSE
                         ELSE IF e = Len(o.lines) /\ ~keep THEN TRUE ELSE o.nl
             IN [file |-> [present |-> TRUE, lines |-> nls, nl |-> nnl], exit |-> 0, wrote |-> TRUE]

ImplStatus(f) ==
    LET o  == Content(f)
        m1 == ImplFindNonComment(o.lines, 1)
        m2 == IF m1 = 0 THEN 0 ELSE ImplFindNonComment(o.lines, m1 + 1)
    IN  IF m1 = 0 THEN "absent"
        ELSE IF m2 # 0 THEN "fatal"
        ELSE IF ImplFindEntry(o.lines) = 0 THEN "other" ELSE "present"
=============================================================================
