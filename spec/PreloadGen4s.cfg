SPECIFICATION GenSpec
CONSTANTS
  MaxLines = 4
  MaxSteps = 3
  LineAlphabet <- LinesSmall
  DefectC18 = FALSE
  DefectC19 = FALSE
  AtomicWrite = TRUE
  TmpTrunc = TRUE
INVARIANTS Dump
CHECK_DEADLOCK FALSE
