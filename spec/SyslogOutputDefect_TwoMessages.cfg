SPECIFICATION Spec
CONSTANTS
  MaxCalls = 3
  Defects = {"TwoMessages"}
INVARIANTS TypeOK NoDanglingIdent CallerStateRestored OneMessage
CHECK_DEADLOCK FALSE
