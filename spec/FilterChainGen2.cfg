SPECIFICATION Spec
CONSTANTS
  Elements <- Alphabet
  MaxLen = 2
  Uids = {0, 1000, 1002}
  Defects <- NoDefects
INVARIANTS Dump
CHECK_DEADLOCK FALSE
