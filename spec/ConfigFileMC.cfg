SPECIFICATION Spec
CONSTANTS
  Lines <- AllLines
  MaxLines = 2
  Headers <- Hdrs
  Defaults <- Dflt
INVARIANTS ImplWithinContract AtMostTwo OtherSectionsInert
CHECK_DEADLOCK FALSE
