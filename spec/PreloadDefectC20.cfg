SPECIFICATION Spec
CONSTANTS
  MaxLines = 2
  MaxSteps = 3
  LineAlphabet <- Lines
  DefectC18 = FALSE
  DefectC19 = FALSE
  AtomicWrite = FALSE
  TmpTrunc = TRUE
INVARIANTS TypeOK ImplRefinesContract Idempotent StatusAfterEnable ContractIdempotent RoundTrip DisableKeepsOthers OldOrNew
CHECK_DEADLOCK FALSE
