---------------------------- MODULE ConfigHostile ----------------------------
(* C02, first sentence: no configuration file content can crash or corrupt the calling process.        *)
(* Files are sequences of HOSTILE line tokens (ids; the concretiser in checks/c02.py maps each to bytes:  *)
(* lines of 1022/1023/1024/2500 bytes, lone quotes, empty keys, "output = :", one-to-three-letter syslog   *)
(* names, numbers that overflow, BOM / NUL / CR bytes, unterminated and over-long section and option       *)
(* names, continuation lines, tags of 100+ bytes, ...).  The contract for every such file and every call  *)
(* shape: the logging path finishes without sanitizer report, fatal signal or hang, and the real exec is   *)
(* reached exactly once.                                                                                 *)
EXTENDS Integers, Sequences, FiniteSets, TLC, Json
CONSTANTS NTokens, MaxLines, Shapes
RECURSIVE SeqsUpTo(_)
SeqsUpTo(n) == IF n = 0 THEN {<<>>} ELSE LET P == SeqsUpTo(n-1) IN P \cup {Append(s, x) : s \in {p \in P : Len(p) = n-1}, x \in 1..NTokens}
VARIABLES file, shape, done
Init == file \in SeqsUpTo(MaxLines) /\ shape \in Shapes /\ done = FALSE
Next == ~done /\ done' = TRUE /\ UNCHANGED <<file, shape>>
Spec == Init /\ [][Next]_<<file, shape, done>>
Outcome == [signal : Int, sanitizer : BOOLEAN, execs : Int, hung : BOOLEAN]
Survives(o) == o.signal = 0 /\ ~o.sanitizer /\ o.execs = 1 /\ ~o.hung
Dump == done => PrintT(<<"OUT", ToJson([file |-> file, shape |-> shape])>>)
=============================================================================
