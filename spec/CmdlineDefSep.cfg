SPECIFICATION Spec
CONSTANTS
  Cap = 256
  ArgLens <- Lens
  MaxArgs = 3
  Defects <- DefSep
INVARIANTS WritesWithin Terminated ResultExact
CHECK_DEADLOCK FALSE
