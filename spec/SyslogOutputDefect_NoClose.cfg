SPECIFICATION Spec
CONSTANTS
  MaxCalls = 3
  Defects = {"NoClose"}
INVARIANTS TypeOK NoDanglingIdent CallerStateRestored OneMessage
CHECK_DEADLOCK FALSE
