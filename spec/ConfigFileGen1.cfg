SPECIFICATION Spec
CONSTANTS
  Lines <- AllLines
  MaxLines = 1
  Headers <- Hdrs
  Defaults <- Dflt
INVARIANTS Dump
CHECK_DEADLOCK FALSE
