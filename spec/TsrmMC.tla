------------------------------- MODULE TsrmMC -------------------------------
EXTENDS Tsrm, Json, IOUtils
Sec7 == <<"ctor", "lookup", "lookup", "count", "io", "dtorfind", "dtorremove">>
Sec4 == <<"ctor", "count", "dtorfind", "dtorremove">>
(* the section sequence measured on the real library by the harness (env SECTIONS_FILE = one-line ndjson file holding the array) *)
SecMeasured == IF "SECTIONS_FILE" \in DOMAIN IOEnv THEN ndJsonDeserialize(IOEnv.SECTIONS_FILE)[1] ELSE Sec7
T2 == {1, 2}  T3 == {1, 2, 3}  T4 == {1, 2, 3, 4}
NoFork == {}  Fork1 == {1}
NoDefects == {}  DefNoUnreg == {"no_unregister"}  DefKeep == {"child_keeps_lock"}
View == <<exists, list, count, owner, pc, seen, inited, forked, lastRun, preempts>>
Dump == AllDone => PrintT(<<"OUT", ToJson(hist)>>)
=============================================================================
