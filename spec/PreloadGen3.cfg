SPECIFICATION GenSpec
CONSTANTS
  MaxLines = 3
  MaxSteps = 2
  LineAlphabet <- Lines
  DefectC18 = FALSE
  DefectC19 = FALSE
  AtomicWrite = TRUE
  TmpTrunc = TRUE
INVARIANTS Dump
CHECK_DEADLOCK FALSE
