SPECIFICATION Spec
CONSTANTS
  MaxCalls = 3
  Defects = {}
INVARIANTS TypeOK NoDanglingIdent CallerStateRestored OneMessage Dump
CHECK_DEADLOCK FALSE
