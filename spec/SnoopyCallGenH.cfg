SPECIFICATION Spec
CONSTANTS
  Files <- FilesSmall
  Calls <- CallsSmall
  Results <- ResultsSmall
  MaxCalls = 3
  ThreadSafe = TRUE
  Defects <- NoDefects
INVARIANTS Dump
CHECK_DEADLOCK FALSE
