SPECIFICATION Spec
CONSTANTS
  Elements <- Alphabet
  MaxLen = 2
  Uids = {0, 1000, 1002}
  Defects <- D1
INVARIANTS ImplIsConjunction OrderIrrelevant RepeatIrrelevant EmptyPasses
CHECK_DEADLOCK FALSE
