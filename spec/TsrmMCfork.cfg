SPECIFICATION Spec
CONSTANTS
  Threads <- T3
  NCalls = 1
  Sections <- Sec7
  MaxPreempt = 3
  MinListAtFork = 0
  Forkers <- Fork1
  AtFork = "locked"
  Defects <- NoDefects
INVARIANTS OneEntryPerThread CountMatches Isolation Quiescent CountSane NoDeadlock
VIEW View
CHECK_DEADLOCK FALSE
