---------------------------- MODULE UidFiltersMC ----------------------------
EXTENDS UidFilters, Json
AllCallers == {"c0", "c1000", "c65534", "c65536", "c2147483647", "c2147483648", "c4294967294"}
Toks == {"self", "self+1", "self-1", "prefix", "suffix", "zero", "other1", "euid"}
NoDefects == {}
DE == {"effective_uid"}  DP == {"prefix_compare"}  DL == {"le_compare"}
Dump == Done => PrintT(<<"OUT", ToJson([caller |-> caller, list |-> list, member |-> InList(caller, list)])>>)
=============================================================================
