----------------------------- MODULE SpawnsOfMC -----------------------------
EXTENDS SpawnsOf, Json
N6 == {"sshd", "sshd-x", "a b", "a) S 1 (", "abcdefghijklmno", "zz"}
N3 == {"sshd", "sshd-x", "a) S 1 ("}
PP == {<<"sshd", "sshd-x">>}
S2 == {"sshd", "zz"}
U0 == {0}   U03 == {0, 1, 2, 3}
NoDefects == {}
D1 == {"include_self"} D2 == {"parent_only"} D3 == {"hole_at_empty"} D4 == {"skip_top"} D5 == {"prefix_match"} D6 == {"drop_on_error"}
Dump == verdict \in {"PASS", "DROP"} => PrintT(<<"OUT", ToJson([chain |-> chain, self |-> self, list |-> list, unread |-> unread, drop |-> Drop(chain, list, unread)])>>)
=============================================================================
