SPECIFICATION Spec
CONSTANTS
  Lines <- SmallLines
  MaxLines = 3
  Headers <- Hdrs
  Defaults <- Dflt
INVARIANTS Dump
CHECK_DEADLOCK FALSE
