----------------------------- MODULE FileOutput -----------------------------
(* C17: file records are appended whole; concurrent writers never interleave.                       *)
(* Writers emit records as sequences of CHUNKS (one write(2) each) on a descriptor opened with or    *)
(* without O_APPEND.  The OS appends a chunk atomically at end-of-file (O_APPEND) or writes it at the *)
(* descriptor's private offset (no O_APPEND, offset 0 after open).  TLC shows that the file is always *)
(* made of whole records exactly when every record is ONE chunk on an O_APPEND descriptor -- which is *)
(* the per-record system-call contract the harness then checks on the real library (FileOutputTrace). *)
EXTENDS Integers, Sequences, FiniteSets, TLC
CONSTANTS Writers, Records,      \* each writer writes Records records
          Chunks,                \* write(2) calls per record
          OAppend,               \* descriptor opened with O_APPEND
          Initial                \* tokens already in the file
VARIABLES file, st, rec, chunk, off
vars == <<file, st, rec, chunk, off>>
Tok(w, r, i) == <<w, r, i>>
Init == /\ file = [i \in 1..Initial |-> <<0, 0, i>>]
        /\ st = [w \in Writers |-> "closed"] /\ rec = [w \in Writers |-> 1] /\ chunk = [w \in Writers |-> 1] /\ off = [w \in Writers |-> 0]
Open(w) == /\ st[w] = "closed" /\ rec[w] <= Records
           /\ st' = [st EXCEPT ![w] = "open"] /\ chunk' = [chunk EXCEPT ![w] = 1]
           /\ off' = [off EXCEPT ![w] = 0]            \* a fresh descriptor starts at offset 0; O_APPEND ignores it
           /\ UNCHANGED <<file, rec>>
PutAt(f, pos, x) == IF pos + 1 <= Len(f) THEN [f EXCEPT ![pos + 1] = x] ELSE Append(f, x)
Write(w) == /\ st[w] = "open" /\ chunk[w] <= Chunks
            /\ file' = IF OAppend THEN Append(file, Tok(w, rec[w], chunk[w])) ELSE PutAt(file, off[w], Tok(w, rec[w], chunk[w]))
            /\ off' = [off EXCEPT ![w] = IF OAppend THEN Len(file) + 1 ELSE off[w] + 1]
            /\ chunk' = [chunk EXCEPT ![w] = chunk[w] + 1]
            /\ UNCHANGED <<st, rec>>
Close(w) == /\ st[w] = "open" /\ chunk[w] > Chunks
            /\ st' = [st EXCEPT ![w] = "closed"] /\ rec' = [rec EXCEPT ![w] = rec[w] + 1]
            /\ UNCHANGED <<file, chunk, off>>
Next == \E w \in Writers : Open(w) \/ Write(w) \/ Close(w)
Spec == Init /\ [][Next]_vars

(* the initial content is never overwritten or truncated *)
InitialKept == \A i \in 1..Initial : i <= Len(file) /\ file[i] = <<0, 0, i>>
(* every record that was started appears as a contiguous, in-order run (complete, or a prefix if still in flight) *)
Whole(w, r) == LET S == {i \in 1..Len(file) : file[i][1] = w /\ file[i][2] = r} IN
               S = {} \/ (\E a \in S : S = a..(a + Cardinality(S) - 1) /\ \A i \in S : file[i][3] = i - a + 1)
WholeRecords == \A w \in Writers : \A r \in 1..Records : Whole(w, r)
(* nothing is lost: a finished record is completely present *)
NothingLost == \A w \in Writers : \A r \in 1..(rec[w] - 1) : Cardinality({i \in 1..Len(file) : file[i][1] = w /\ file[i][2] = r}) = Chunks
=============================================================================
