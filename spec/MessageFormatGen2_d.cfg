SPECIFICATION Spec
CONSTANTS
  D = 2047
  M = 16383
  Tokens <- TokensFull
  MaxTok = 2
  SrcCap = 990
  TagBufSize = 1124
  Defects <- NoDefects
INVARIANTS Dump
CHECK_DEADLOCK FALSE
