SPECIFICATION GenSpec
CONSTANTS
  MaxLines = 2
  MaxSteps = 3
  LineAlphabet <- Lines
  DefectC18 = FALSE
  DefectC19 = FALSE
  AtomicWrite = TRUE
  TmpTrunc = TRUE
INVARIANTS Dump
CHECK_DEADLOCK FALSE
