SPECIFICATION Spec
CONSTANTS
  Uids <- U3
  Gids <- G3
  MaxSteps = 4
INVARIANTS NeverAllDistinct
CHECK_DEADLOCK FALSE
