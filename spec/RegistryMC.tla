----------------------------- MODULE RegistryMC -----------------------------
EXTENDS Registry, Json, IOUtils
AllOn == Features
OnlyAllOn == {Features}
SingleOff == {Features \ {f} : f \in Features}
PairOff == {Features \ {f, g} : f, g \in Features}
SmallFeatures == {f \in Features : \E r \in {"flt", "out"} : \E i \in 1..Len(Regs[r].names) : \E lit \in Regs[r].names[i].g : lit[1] = f}
(* every subset of the filter and output switches, data sources all on or all off *)
SmallExhaustive == {(Features \ SmallFeatures) \cup X : X \in SUBSET SmallFeatures} \cup SUBSET SmallFeatures
ConfigSeq == IF "CONFIGS_FILE" \in DOMAIN IOEnv THEN ndJsonDeserialize(IOEnv.CONFIGS_FILE) ELSE <<>>
FromFile == {{ConfigSeq[i][j] : j \in 1..Len(ConfigSeq[i])} : i \in 1..Len(ConfigSeq)}
MCConfigs == {AllOn, {}} \cup SingleOff \cup PairOff \cup SmallExhaustive
GenConfigs == {AllOn, {}} \cup SingleOff \cup FromFile
Dump == done => PrintT(<<"OUT", ToJson([S |-> S, names |-> [r \in DOMAIN Regs |-> [i \in 1..Len(Names(r, S)) |-> [name |-> Names(r, S)[i].item, own |-> Names(r, S)[i].own]]]])>>)
=============================================================================
