---------------------------- MODULE FilterChainMC ----------------------------
EXTENDS FilterChain, Json
El(n, a, c) == [name |-> n, arg |-> a, colon |-> c]
U == 1000  V == 1001
Alphabet == {
  El("only_root", <<>>, FALSE), El("only_uid", <<0>>, TRUE), El("only_uid", <<U>>, TRUE), El("exclude_uid", <<0>>, TRUE),
  El("exclude_uid", <<U, V>>, TRUE), El("only_tty", <<>>, FALSE), El("noop", <<>>, FALSE),
  El("bogus", <<>>, FALSE), El("bogus", <<0>>, TRUE), El("", <<>>, FALSE),
  El("only_uid", <<>>, FALSE), El("exclude_uid", <<>>, FALSE),                   \* known names without any argument
  El("only", <<>>, FALSE), El("exclude_u", <<0>>, TRUE), El("only_t", <<>>, FALSE), \* unknown names that are prefixes of known ones
  El("only_uidx", <<0>>, TRUE), El("ONLY_ROOT", <<>>, FALSE),
  El("exclude_spawns_of", <<U, V>>, TRUE),                                        \* a filter that tokenizes its own argument, inside a chain
  El("unknown_name_of_120_bytes", <<0>>, TRUE) }                                  \* concretised as a 120-byte unknown name
Small == { El("only_root", <<>>, FALSE), El("only_uid", <<U>>, TRUE), El("exclude_uid", <<0>>, TRUE), El("bogus", <<0>>, TRUE),
           El("", <<>>, FALSE), El("exclude_uid", <<>>, FALSE), El("only", <<>>, FALSE), El("exclude_spawns_of", <<U, V>>, TRUE),
           El("unknown_name_of_120_bytes", <<0>>, TRUE) }
NoDefects == {}
D1 == {"stop_at_unknown"}  D2 == {"arg_leak"}  D3 == {"prefix_match"}  D4 == {"first_only"}  D5 == {"empty_drops"}
Dump == verdict \in {"PASS", "DROP"} => PrintT(<<"OUT", ToJson([chain |-> chain, ps |-> ps, pass |-> Decision(chain, ps)])>>)
=============================================================================
