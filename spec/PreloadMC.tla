----------------------------- MODULE PreloadMC -----------------------------
EXTENDS Preload, Json
(* the line alphabet of DESIGN C18 (each line a sequence of atoms) *)
Lines ==
  { <<"OWN">>, <<"OWN","SP">>, <<"OWN","TAB">>, <<"OWN","SP","HASH","TXT">>, <<"OWN","HASH","TXT">>,
    <<"OWN","SP","FOR">>, <<"OWN","TAB","FOR","SP","FOR2">>, <<"OWN","SP","FOR","SP","HASH","TXT">>,
    <<"FOR">>, <<"FSN">>, <<"PFX">>, <<"SFX">>, <<"HASH","TXT">>, <<"HASH","SP","MEN">>,
    <<"HASH","SP","MEN","SP","MEN">>, <<"HASH","OWN">>, <<>>, <<"OWN","CR">>, <<"FOR","SP","OWN">>, <<"SP","OWN">>,
    <<"HASH","OWN","SP","MEN">>, <<"SP","FOR">>, <<"MEN">> }       \* <<"MEN">>: a bare "libsnoopy.so" entry, i.e. an active mention without any directory
LinesSmall ==
  { <<"OWN">>, <<"OWN","SP","FOR">>, <<"FOR">>, <<"FSN">>, <<"HASH","SP","MEN","SP","MEN">>, <<>> }

NextNoCrash == Enable \/ Disable \/ Status \/ TruncOpen \/ TruncWrite \/ TmpOpen \/ TmpWrite \/ TmpSync \/ Rename
GenSpec == Init /\ [][NextNoCrash]_vars
Dump == (pc = "idle" /\ Len(hist) = MaxSteps + 1) => PrintT(<<"OUT", ToJson(hist)>>)
=============================================================================
