SPECIFICATION Spec
CONSTANTS
  Files <- FilesSmall
  Calls <- CallsSmall
  Results <- ResultsSmall
  MaxCalls = 2
  ThreadSafe = FALSE
  Defects <- DefEarly
INVARIANTS ExactlyOnce AfterLogging Untouched OneFaithfulRecord ResetInvariant NoResidueAtExec
CHECK_DEADLOCK FALSE
