SPECIFICATION Spec
CONSTANTS
  Lines <- AllLines
  MaxLines = 2
  Headers <- HdrSnoopy
  Defaults <- Dflt
INVARIANTS Dump
CHECK_DEADLOCK FALSE
