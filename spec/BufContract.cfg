SPECIFICATION Spec
INVARIANTS Dump
CHECK_DEADLOCK FALSE
