--------------------------- MODULE PreloadSysTrace ---------------------------
(* Trace validation for C20: the system calls the real snoopyctl makes on ld.so.preload and its   *)
(* temporary file (recorded with strace, mapped to action names by the harness), each execution    *)
(* ending either normally (Done) or by a kill / failed call at some boundary (Crash) with the file *)
(* contents then found on disk, must be a behaviour of the Preload state machine.                  *)
(* Executions are concatenated with Reset events.  An execution the spec cannot follow is skipped  *)
(* to the next Reset and its index recorded in `bad` (protocol drift: reported, judged by harness).*)
EXTENDS Preload, Json, IOUtils
T == ndJsonDeserialize(IOEnv.TRACE)
VARIABLES l, bad
tvars == <<vars, l, bad>>

Ev(name) == l <= Len(T) /\ T[l].e = name /\ l' = l + 1 /\ UNCHANGED bad
TInit == /\ l = 1 /\ bad = {}
         /\ disk = Absent /\ tmp = Absent /\ pc = "idle" /\ cmd = NoCmd /\ exit = -1 /\ out = "none" /\ hist = <<>>
TReset    == /\ Ev("Reset") /\ disk' = T[l].disk /\ tmp' = Absent /\ pc' = "idle" /\ cmd' = NoCmd /\ exit' = -1 /\ out' = "none"
             /\ hist' = << [c |-> "init", exit |-> 0, disk |-> T[l].disk, out |-> "none"] >>
TEnable   == Ev("enable")  /\ Enable
TDisable  == Ev("disable") /\ Disable
TTruncOpen  == Ev("TruncOpen")  /\ TruncOpen
TTruncWrite == Ev("TruncWrite") /\ TruncWrite
TTmpOpen  == Ev("TmpOpen")  /\ TmpOpen
TTmpWrite == Ev("TmpWrite") /\ TmpWrite
TTmpSync  == Ev("TmpSync")  /\ (TmpSync \/ (pc = "tmpopen" /\ cmd.new.lines = <<>> /\ pc' = "tmpsynced" /\ tmp' = cmd.new
                                             /\ UNCHANGED <<disk, cmd, exit, out, hist>>))   \* empty content: no write(2) is issued
TRename   == Ev("Rename")   /\ Rename
(* the process was killed / gave up here: what is on disk must be what the spec says is on disk *)
TCrash    == /\ Ev("Crash") /\ Content(disk) = Content(T[l].disk)
             /\ \/ (pc \notin {"idle", "dead"} /\ Crash)
                \/ (pc \in {"idle", "dead"} /\ UNCHANGED vars)
TDone     == Ev("Done") /\ pc = "idle" /\ Content(disk) = Content(T[l].disk) /\ exit = T[l].exit /\ UNCHANGED vars
Normal == TReset \/ TEnable \/ TDisable \/ TTruncOpen \/ TTruncWrite \/ TTmpOpen \/ TTmpWrite \/ TTmpSync \/ TRename \/ TCrash \/ TDone
RECURSIVE NextReset(_)
NextReset(i) == IF i > Len(T) \/ T[i].e = "Reset" THEN i ELSE NextReset(i + 1)
TResync == /\ l <= Len(T) /\ ~ENABLED Normal
           /\ bad' = bad \cup {l} /\ l' = NextReset(l + 1)
           /\ pc' = "dead" /\ UNCHANGED <<disk, tmp, cmd, exit, out, hist>>
TNext == Normal \/ TResync
TSpec == TInit /\ [][TNext]_tvars
Report == l = Len(T) + 1 => PrintT(<<"OUT", ToJson([bad |-> bad, consumed |-> l - 1])>>)
=============================================================================
