SPECIFICATION Spec
CONSTANTS
  Files <- FilesTwo
  Calls <- CallsSmall
  Results <- ResultsFail
  MaxCalls = 3
  ThreadSafe = TRUE
  Defects <- NoDefects
INVARIANTS Dump
CHECK_DEADLOCK FALSE
