SPECIFICATION Spec
CONSTANTS
  Callers <- AllCallers
  ListTokens <- Toks
  MaxLen = 2
  Defects <- DP
INVARIANTS ImplExact Complement
CHECK_DEADLOCK FALSE
