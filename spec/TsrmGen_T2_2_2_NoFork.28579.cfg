SPECIFICATION Spec
CONSTANTS
  Threads <- T2
  NCalls = 2
  Sections <- SecMeasured
  MaxPreempt = 2
  MinListAtFork = 0
  Forkers <- NoFork
  AtFork = "locked"
  Defects <- NoDefects
INVARIANTS Dump
CHECK_DEADLOCK FALSE
