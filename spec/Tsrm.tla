-------------------------------- MODULE Tsrm --------------------------------
(* The thread repository of the library (src/tsrm.c, util/list.c) under concurrent exec calls      *)
(* (C09) and fork (C10).                                                                           *)
(*                                                                                                *)
(* One call of thread t is a fixed sequence of CRITICAL SECTIONS (constant Sections, measured on   *)
(* the real library by the harness in a solo run): "ctor" (register the thread), "lookup" (find    *)
(* own entry: every configuration / input-storage access), "count" (%{snoopy_threads}),            *)
(* "io" (a write(2) issued by an output, no lock held: a further scheduling point), "dtorfind", "dtorremove".  Each section is two steps: Lock(t) = acquire + body, Unlock(t) = release. *)
(* Code between sections is thread-local.  A scheduler step runs one thread to its next             *)
(* synchronisation point, which is exactly what the replay harness does on the real code.           *)
(*                                                                                                *)
(* Processes: the parent (all threads) and children created by Fork(p, t) with the single thread t and a   *)
(* copy of P's memory (list, count, mutex).  AtFork selects the fork protocol:                      *)
(*   "none"  : no handlers (pre-fix code) -- the child inherits whatever state the mutex is in      *)
(*   "locked": prepare = lock, parent = unlock, child = re-initialise mutex + drop other entries    *)
EXTENDS Integers, Sequences, FiniteSets, TLC

CONSTANTS Threads,        \* e.g. {1, 2, 3}
          NCalls,         \* calls per thread in the parent
          Sections,       \* sequence of section kinds of one call
          MaxPreempt,     \* bound on preemptions (context switches away from a thread that could continue)
          MinListAtFork,  \* generation aid: forks start only while at least this many threads are registered in the parent (0 = no restriction)
          Forkers,        \* threads that may fork (once) between their calls
          AtFork,         \* "none" | "locked"
          Defects         \* subset of {"no_unregister", "child_keeps_lock"}

NS == Len(Sections)
Procs == {0} \cup Forkers          \* process ids: 0 = the parent, t = the child forked by thread t

VARIABLES exists,     \* [Procs -> BOOLEAN]
          list,       \* [Procs -> Seq(Threads)]    registered thread ids in list order
          count,      \* [Procs -> Int]             the list's element counter
          owner,      \* [Procs -> Threads \cup {0}]  mutex owner (0 = free)
          pc,         \* [Procs -> [Threads -> [call, sec, ph]]]  ph: "idle" | "want" | "hold" | "gone" | "forkwant" | "forkhold"
          seen,       \* [Procs -> [Threads -> Seq(Int)]]   count values read by the "count" sections, per call
          inited,     \* [Procs -> BOOLEAN]  pthread_once has run in this process: mutex initialised, fork handlers registered
          forked,     \* set of threads that have forked
          lastRun, preempts,
          hist        \* schedule so far: sequence of [p, t, a] with the projected state after the step
vars == <<exists, list, count, owner, pc, seen, inited, forked, lastRun, preempts, hist>>

Idle(k) == [call |-> k, sec |-> 0, ph |-> "idle"]
Gone    == [call |-> 0, sec |-> 0, ph |-> "gone"]

Init == /\ exists = [p \in Procs |-> p = 0]
        /\ list = [p \in Procs |-> <<>>] /\ count = [p \in Procs |-> 0] /\ owner = [p \in Procs |-> 0]
        /\ pc = [p \in Procs |-> [t \in Threads |-> IF p = 0 THEN Idle(1) ELSE Gone]]
        /\ seen = [p \in Procs |-> [t \in Threads |-> <<>>]]
        /\ inited = [p \in Procs |-> FALSE]
        /\ forked = {} /\ lastRun = <<0, 0>> /\ preempts = 0 /\ hist = <<>>

InList(p, t) == \E i \in 1..Len(list[p]) : list[p][i] = t
Without(s, t) == SelectSeq(s, LAMBDA x : x # t)
CallsOf(p) == IF p = 0 THEN NCalls ELSE 1

(* can thread t of process p take a step right now? *)
Runnable(p, t) ==
    /\ exists[p]
    /\ LET s == pc[p][t] IN
       \/ s.ph = "idle" /\ s.call <= CallsOf(p)
       \/ s.ph = "want" /\ Sections[s.sec] = "io"
       \/ s.ph \in {"want", "forkwant"} /\ owner[p] \in {0, t}
       \/ s.ph \in {"hold", "forkhold"}

Proj(p) == [list |-> list[p], count |-> count[p], owner |-> owner[p]]
Record(p, t, a) == hist' = Append(hist, [p |-> p, t |-> t, a |-> a, after |-> [list |-> list'[p], count |-> count'[p], owner |-> owner'[p]]])
Sched(p, t) ==
    /\ lastRun' = <<p, t>>
    /\ preempts' = IF lastRun # <<p, t>> /\ lastRun[2] # 0 /\ Runnable(lastRun[1], lastRun[2]) THEN preempts + 1 ELSE preempts
    /\ preempts' <= MaxPreempt

(* enter a call: run to the first lock request *)
Enter(p, t) == /\ exists[p] /\ pc[p][t].ph = "idle" /\ pc[p][t].call <= CallsOf(p)
               /\ pc' = [pc EXCEPT ![p][t] = [call |-> pc[p][t].call, sec |-> 1, ph |-> "want"]]
               /\ inited' = [inited EXCEPT ![p] = TRUE]              \* pthread_once(snoopy_tsrm_init) precedes the first lock request
               /\ UNCHANGED <<exists, list, count, owner, seen, forked>>
               /\ Sched(p, t) /\ Record(p, t, "enter")

(* acquire the mutex and execute the body of the section (the thread then stands at its unlock call) *)
Lock(p, t) ==
    /\ exists[p] /\ pc[p][t].ph = "want" /\ (owner[p] \in {0, t} \/ Sections[pc[p][t].sec] = "io")
    /\ LET s == pc[p][t] IN LET kind == Sections[s.sec] IN
       /\ list' = [list EXCEPT ![p] = CASE kind = "ctor" /\ ~InList(p, t) -> Append(list[p], t)
                                        [] kind = "dtorremove" /\ "no_unregister" \notin Defects -> Without(list[p], t)
                                        [] OTHER -> list[p]]
       /\ count' = [count EXCEPT ![p] = CASE kind = "ctor" /\ ~InList(p, t) -> count[p] + 1
                                          [] kind = "dtorremove" /\ "no_unregister" \notin Defects /\ InList(p, t) -> count[p] - 1
                                          [] OTHER -> count[p]]
       /\ seen' = IF kind = "count" THEN [seen EXCEPT ![p][t] = Append(seen[p][t], count[p])] ELSE seen
    /\ owner' = IF Sections[pc[p][t].sec] = "io" THEN owner ELSE [owner EXCEPT ![p] = t]     \* "io": a system call outside any lock
    /\ pc' = [pc EXCEPT ![p][t].ph = "hold"]
    /\ UNCHANGED <<exists, forked, inited>>
    /\ Sched(p, t) /\ Record(p, t, "lock")

(* release; afterwards the thread runs to its next lock request, or through the real exec and the return to its
   caller when this was the last section *)
Unlock(p, t) ==
    /\ exists[p] /\ pc[p][t].ph = "hold"
    /\ LET s == pc[p][t] IN
       pc' = [pc EXCEPT ![p][t] = IF s.sec < NS THEN [call |-> s.call, sec |-> s.sec + 1, ph |-> "want"] ELSE Idle(s.call + 1)]
    /\ owner' = IF Sections[pc[p][t].sec] = "io" THEN owner ELSE [owner EXCEPT ![p] = 0]
    /\ UNCHANGED <<exists, list, count, seen, forked, inited>>
    /\ Sched(p, t) /\ Record(p, t, "unlock")

(* fork(): thread t of the parent, outside the library, forks once *)
MkChild(t, l, c, o) ==
    /\ exists' = [exists EXCEPT ![t] = TRUE]
    /\ list' = [list EXCEPT ![t] = l] /\ count' = [count EXCEPT ![t] = c]
    /\ owner' = [owner EXCEPT ![t] = o, ![0] = IF AtFork = "locked" /\ inited[0] THEN 0 ELSE owner[0]]
    /\ pc' = [pc EXCEPT ![t][t] = Idle(1), ![0][t].ph = "idle"]
    /\ forked' = forked \cup {t}
    /\ inited' = [inited EXCEPT ![t] = inited[0]]
ForkStart(t) == /\ t \in Forkers \ forked /\ pc[0][t].ph = "idle" /\ ~exists[t] /\ Len(list[0]) >= MinListAtFork
                /\ IF AtFork = "locked" /\ inited[0]                      \* handlers exist once the library has been initialised
                   THEN /\ pc' = [pc EXCEPT ![0][t].ph = "forkwant"]          \* prepare handler asks for the mutex
                        /\ UNCHANGED <<exists, list, count, owner, seen, forked, inited>>
                   ELSE /\ MkChild(t, list[0], count[0], owner[0])          \* memory copied as it is
                        /\ UNCHANGED seen
                /\ Sched(0, t) /\ Record(0, t, "fork")
ForkLock(t) == /\ pc[0][t].ph = "forkwant" /\ owner[0] \in {0, t}
               /\ owner' = [owner EXCEPT ![0] = t] /\ pc' = [pc EXCEPT ![0][t].ph = "forkhold"]
               /\ UNCHANGED <<exists, list, count, seen, forked, inited>>
               /\ Sched(0, t) /\ Record(0, t, "lock")
(* the fork itself with the mutex held; parent handler unlocks; child handler re-initialises and keeps only t *)
ForkUnlock(t) == /\ pc[0][t].ph = "forkhold"
                 /\ MkChild(t, SelectSeq(list[0], LAMBDA x : x = t), IF InList(0, t) THEN 1 ELSE 0,
                            IF "child_keeps_lock" \in Defects THEN -1 ELSE 0)     \* -1: still owned by the kernel thread id the forking thread had in the parent
                 /\ UNCHANGED seen
                 /\ Sched(0, t) /\ Record(0, t, "unlock")

Step == \E p \in Procs, t \in Threads : Enter(p, t) \/ Lock(p, t) \/ Unlock(p, t)
Next == Step \/ (\E t \in Threads : ForkStart(t) \/ ForkLock(t) \/ ForkUnlock(t))

AllDone == \A p \in Procs : exists[p] => \A t \in Threads : pc[p][t].ph \in {"gone"} \/ (pc[p][t].ph = "idle" /\ pc[p][t].call > CallsOf(p))
Finished == AllDone /\ UNCHANGED vars
Spec == Init /\ [][Next \/ Finished]_vars

-----------------------------------------------------------------------------
(* C09 *)
OneEntryPerThread == \A p \in Procs : \A i, j \in 1..Len(list[p]) : list[p][i] = list[p][j] => i = j
CountMatches      == \A p \in Procs : count[p] = Len(list[p])
(* a thread inside a call (past its ctor) always finds its own entry *)
Isolation == \A p \in Procs, t \in Threads :
                 (exists[p] /\ pc[p][t].sec > 1 /\ (pc[p][t].ph = "want" \/ (pc[p][t].ph = "hold" /\ Sections[pc[p][t].sec] # "dtorremove")))
                     => InList(p, t)
(* once every call has returned the library holds no per-thread state *)
Quiescent == \A p \in Procs : (exists[p] /\ \A t \in Threads : pc[p][t].ph \in {"idle", "gone"}) =>
                 (list[p] = <<>> /\ count[p] = 0 /\ owner[p] = 0)
(* the count a call reads includes itself and never exceeds the number of threads inside calls *)
CountSane == \A p \in Procs, t \in Threads : \A i \in 1..Len(seen[p][t]) : seen[p][t][i] >= 1 /\ seen[p][t][i] <= Cardinality(Threads)
(* C09 / C10: no reachable state in which somebody is inside a call (or a fork) and nobody can move *)
Stuck(p, t) == exists[p] /\ pc[p][t].ph \in {"want", "forkwant"} /\ owner[p] \notin {0, t}
                 /\ ~(pc[p][t].ph = "want" /\ Sections[pc[p][t].sec] = "io")
                 /\ \A u \in Threads : ~(pc[p][u].ph \in {"hold", "forkhold"})          \* the owner is not a live thread of p
NoDeadlock == \A p \in Procs, t \in Threads : ~Stuck(p, t)
=============================================================================
