SPECIFICATION Spec
CONSTANTS
  D = 4095
  M = 4095
  Tokens <- TokensPathDir
  MaxTok = 2
  SrcCap = 250
  TagBufSize = 1124
  Defects <- NoDefects
INVARIANTS Dump
CHECK_DEADLOCK FALSE
