----------------------------- MODULE UidFilters -----------------------------
(* C14: only_uid / exclude_uid / only_root decide by exact membership of the REAL uid.              *)
(* Uids are abstract tokens (TLC integers are 32-bit signed; 2^32-2 must be reachable): a caller     *)
(* class fixes the concrete uid, list tokens are defined relative to it (near misses: +-1, decimal  *)
(* prefix / suffix of its text, zero, unrelated values).  The effective uid is always different.    *)
EXTENDS Integers, Sequences, FiniteSets, TLC
CONSTANTS Callers, ListTokens, MaxLen,
          Defects    \* subset of {"effective_uid", "prefix_compare", "le_compare"}
Denotes(t, c) == t = "self" \/ (t = "zero" /\ c = "c0")
InList(c, l) == \E i \in 1..Len(l) : Denotes(l[i], c)
OnlyUid(c, l)    == InList(c, l)
ExcludeUid(c, l) == ~InList(c, l)
OnlyRoot(c)      == c = "c0"
RECURSIVE SeqsUpTo(_)
SeqsUpTo(n) == IF n = 0 THEN {<<>>}
               ELSE LET P == SeqsUpTo(n-1) IN P \cup {Append(s, x) : s \in {p \in P : Len(p) = n-1}, x \in ListTokens}
VARIABLES caller, list, i, found
vars == <<caller, list, i, found>>
Init == caller \in Callers /\ list \in {l \in SeqsUpTo(MaxLen) : Len(l) >= 1} /\ i = 1 /\ found = FALSE
(* implementation-shaped: the loop over csv items comparing atol(item) with getuid() *)
Matches(t, c) == \/ Denotes(t, c)
                 \/ "effective_uid" \in Defects /\ t = "euid"
                 \/ "prefix_compare" \in Defects /\ t = "prefix"
                 \/ "le_compare" \in Defects /\ t = "self-1"
Step == /\ i <= Len(list) /\ ~found
        /\ found' = Matches(list[i], caller) /\ i' = i + 1 /\ UNCHANGED <<caller, list>>
Next == Step
Spec == Init /\ [][Next]_vars
Done == found \/ i > Len(list)
ImplExact  == Done => (found = InList(caller, list))
Complement == OnlyUid(caller, list) # ExcludeUid(caller, list)
=============================================================================
