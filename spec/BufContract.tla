----------------------------- MODULE BufContract -----------------------------
(* C02, second sentence: every data source stays inside the buffer it is given, for every buffer size   *)
(* the configuration limits permit, and leaves its result NUL-terminated.  The case space (data source  *)
(* x argument class x buffer size x process state) is enumerated by TLC; ResultOK is the contract the    *)
(* sanitizer-instrumented probe's observation of each real call must satisfy.                            *)
EXTENDS Integers, Sequences, FiniteSets, TLC, Json, IOUtils
Names == LET s == ndJsonDeserialize(IOEnv.NAMES_FILE)[1] IN {s[i] : i \in 1..Len(s)}
Sizes == {257, 258, 300, 2049, 65537, 1048577}
ArgClasses == {"empty", "x", "zero", "fmt", "fmtlong", "envname", "long", "pct"}
States == {"normal", "envempty", "envhuge", "argvlong", "argvnull", "envnull", "sudo253", "sudo254", "sudo255", "logname254", "logname3000"}
VARIABLES ds, n, arg, st, done
Init == ds \in Names /\ n \in Sizes /\ arg \in ArgClasses /\ st \in States /\ done = FALSE
Next == ~done /\ done' = TRUE /\ UNCHANGED <<ds, n, arg, st>>
Spec == Init /\ [][Next]_<<ds, n, arg, st, done>>
(* what the probe reports for a call: length of the string found in the buffer, whether a NUL lies inside *)
ResultOK(size, len, hasNul) == hasNul /\ len < size
Dump == done => PrintT(<<"OUT", ToJson([ds |-> ds, n |-> n, arg |-> arg, st |-> st])>>)
=============================================================================
