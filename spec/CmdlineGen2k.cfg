SPECIFICATION Spec
CONSTANTS
  Cap = 2048
  ArgLens <- Lens
  MaxArgs = 3
  Defects <- NoDefects
INVARIANTS Dump
CHECK_DEADLOCK FALSE
