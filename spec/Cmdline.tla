------------------------------- MODULE Cmdline -------------------------------
(* The offset arithmetic of src/datasource/cmdline.c (C06, C02): arguments are joined with single   *)
(* spaces into a result buffer of Cap bytes (Cap = datasource_message_max_length + 1) with two       *)
(* snprintf calls per argument.  Lengths only -- contents are position-dependent patterns the        *)
(* harness generates.  CONTRACT: the result is the prefix of length min(JoinLen, Cap-1) of the join,  *)
(* NUL-terminated inside the buffer, every write inside the buffer.                                   *)
EXTENDS Integers, Sequences, FiniteSets, TLC
CONSTANTS Cap, ArgLens, MaxArgs,
          Defects        \* subset of {"sep_by_store", "no_final_nul"}  (seeded-change shapes)
MinI(a, b) == IF a < b THEN a ELSE b
RECURSIVE SeqsUpTo(_)
SeqsUpTo(n) == IF n = 0 THEN {<<>>}
               ELSE LET P == SeqsUpTo(n-1) IN P \cup {Append(s, x) : s \in {p \in P : Len(p) = n-1}, x \in ArgLens}
RECURSIVE Sum(_)
Sum(s) == IF s = <<>> THEN 0 ELSE Head(s) + Sum(Tail(s))
JoinLen(a) == Sum(a) + Len(a) - 1
Expected(a) == MinI(JoinLen(a), Cap - 1)

VARIABLES args, i, written, reslen, nulAt, writes, phase
vars == <<args, i, written, reslen, nulAt, writes, phase>>
(* written: the C variable bytesWrittenToResultBuf (sum of snprintf return values, may exceed Cap)
   reslen : bytes of the result actually stored; nulAt: index of the last NUL written (-1 none) *)
Init == /\ args \in {a \in SeqsUpTo(MaxArgs) : Len(a) >= 1}
        /\ i = 1 /\ written = 0 /\ reslen = 0 /\ nulAt = -1 /\ writes = {} /\ phase = "sep"

(* snprintf(buf + written, Cap - written, text of length n): stores min(n, room-1) bytes and a NUL, returns n *)
Snprintf(n) == LET room == Cap - written
                   st   == MinI(n, room - 1)
               IN [stored |-> st, wr |-> [off |-> written, n |-> st + 1, cap |-> Cap]]
Sep == /\ phase = "sep" /\ i <= Len(args)
       /\ IF i > 1 /\ written < Cap
          THEN IF "sep_by_store" \in Defects
               THEN /\ writes' = writes \cup {[off |-> written, n |-> 1, cap |-> Cap]}       \* resultBuf[n++] = ' '
                    /\ reslen' = written + 1 /\ nulAt' = -1 /\ written' = written + 1
               ELSE LET r == Snprintf(1) IN
                    /\ writes' = writes \cup {r.wr} /\ reslen' = written + r.stored /\ nulAt' = written + r.stored
                    /\ written' = written + 1
          ELSE UNCHANGED <<writes, reslen, nulAt, written>>
       /\ phase' = "copy" /\ UNCHANGED <<args, i>>
Copy == /\ phase = "copy"
        /\ IF written < Cap
           THEN LET r == Snprintf(args[i]) IN
                /\ writes' = writes \cup {r.wr} /\ reslen' = written + r.stored /\ nulAt' = written + r.stored
                /\ written' = written + args[i]
           ELSE UNCHANGED <<writes, reslen, nulAt, written>>
        /\ i' = i + 1 /\ phase' = (IF i = Len(args) THEN "final" ELSE "sep") /\ UNCHANGED args
Final == /\ phase = "final"
         /\ IF "no_final_nul" \in Defects THEN UNCHANGED <<nulAt, writes>>
            ELSE LET at == IF written < Cap THEN written ELSE Cap - 1 IN
                 /\ nulAt' = at /\ writes' = writes \cup {[off |-> at, n |-> 1, cap |-> Cap]}
         /\ phase' = "done" /\ UNCHANGED <<args, i, written, reslen>>
Next == Sep \/ Copy \/ Final
Spec == Init /\ [][Next]_vars

WritesWithin == \A w \in writes : w.off >= 0 /\ w.off + w.n <= w.cap
Terminated   == phase = "done" => nulAt >= 0 /\ nulAt < Cap
ResultExact  == phase = "done" => nulAt = Expected(args)        \* strlen of the result = expected prefix length
=============================================================================
