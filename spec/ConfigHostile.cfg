SPECIFICATION Spec
CONSTANTS
  NTokens = 64
  MaxLines = 2
  Shapes = {"normal", "nullargv"}
INVARIANTS Dump
CHECK_DEADLOCK FALSE
