SPECIFICATION Spec
CONSTANTS
  Lines <- SecLines
  MaxLines = 3
  Headers <- HdrOther
  Defaults <- Dflt
INVARIANTS Dump
CHECK_DEADLOCK FALSE
