SPECIFICATION Spec
CONSTANTS
  Lines <- SmallLines
  MaxLines = 4
  Headers <- Hdrs
  Defaults <- Dflt
INVARIANTS ImplWithinContract AtMostTwo OtherSectionsInert
CHECK_DEADLOCK FALSE
