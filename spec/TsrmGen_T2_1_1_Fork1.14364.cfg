SPECIFICATION Spec
CONSTANTS
  Threads <- T2
  NCalls = 1
  Sections <- SecMeasured
  MaxPreempt = 1
  MinListAtFork = 0
  Forkers <- Fork1
  AtFork = "locked"
  Defects <- NoDefects
INVARIANTS Dump
CHECK_DEADLOCK FALSE
