SPECIFICATION Spec
CONSTANTS
  MaxLines = 2
  MaxSteps = 3
  LineAlphabet <- Lines
  DefectC18 = FALSE
  DefectC19 = FALSE
  AtomicWrite = TRUE
  TmpTrunc = FALSE
INVARIANTS TypeOK ImplRefinesContract Idempotent StatusAfterEnable ContractIdempotent RoundTrip DisableKeepsOthers OldOrNew HistoryRefinesContract
CHECK_DEADLOCK FALSE
