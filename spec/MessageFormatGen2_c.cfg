SPECIFICATION Spec
CONSTANTS
  D = 300
  M = 255
  Tokens <- TokensFull
  MaxTok = 2
  SrcCap = 990
  TagBufSize = 1124
  Defects <- NoDefects
INVARIANTS Dump
CHECK_DEADLOCK FALSE
