SPECIFICATION Spec
CONSTANTS
  Callers <- AllCallers
  ListTokens <- Toks
  MaxLen = 2
  Defects <- DE
INVARIANTS ImplExact Complement
CHECK_DEADLOCK FALSE
