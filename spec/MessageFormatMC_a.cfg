SPECIFICATION Spec
CONSTANTS
  D = 255
  M = 255
  Tokens <- TokensFull
  MaxTok = 2
  SrcCap = 990
  TagBufSize = 1124
  Defects <- NoDefects
INVARIANTS WritesWithin Bounded DsBounded ExactWhenFits
CHECK_DEADLOCK FALSE
