------------------------------ MODULE SyslogOutput ------------------------------
(* The optional `syslog` output (src/output/syslogoutput.c, built with --enable-output-syslog) and the per-process
   state of glibc's syslog(3) that it shares with the calling program: an open flag and the POINTER to the ident
   string. The output formats the ident into a buffer of its own stack frame, so the pointer may only be installed
   while that frame lives: openlog / syslog / closelog must all happen inside the output function, and the state the
   caller finds at the real exec and after a failed exec is the closed state it had before.
   One action per call of the code: Enter (wrapper entry, filter + format verdict), Openlog, Syslog, Closelog,
   OutputReturn (the frame dies), RealExec. Defects name deliberate deviations used as vacuity guards. *)
EXTENDS Naturals, TLC, Json

CONSTANTS MaxCalls,      \* wrapper calls made by one process
          Defects        \* subset of {"NoClose", "TwoMessages", "LogWhenFiltered"}

VARIABLES pc, open, identIn, frameLive, msgs, pass, calls
vars == <<pc, open, identIn, frameLive, msgs, pass, calls>>

Init == /\ pc = "caller" /\ open = FALSE /\ identIn = "none" /\ frameLive = FALSE
        /\ msgs = 0 /\ pass = FALSE /\ calls = 0

Enter(p) == /\ pc = "caller" /\ calls < MaxCalls
            /\ pc' = "entered" /\ pass' = p /\ msgs' = 0 /\ frameLive' = TRUE
            /\ UNCHANGED <<open, identIn, calls>>

Logs == pass \/ "LogWhenFiltered" \in Defects

Skip == /\ pc = "entered" /\ ~Logs
        /\ pc' = "closed" /\ UNCHANGED <<open, identIn, frameLive, msgs, pass, calls>>

Openlog == /\ pc = "entered" /\ Logs
           /\ open' = TRUE /\ identIn' = "frame" /\ pc' = "opened"
           /\ UNCHANGED <<frameLive, msgs, pass, calls>>

Syslog == /\ pc = "opened"
          /\ msgs' = msgs + (IF "TwoMessages" \in Defects THEN 2 ELSE 1) /\ pc' = "sent"
          /\ UNCHANGED <<open, identIn, frameLive, pass, calls>>

Closelog == /\ pc = "sent"
            /\ IF "NoClose" \in Defects THEN UNCHANGED <<open, identIn>>
                                        ELSE open' = FALSE /\ identIn' = "none"
            /\ pc' = "closed" /\ UNCHANGED <<frameLive, msgs, pass, calls>>

OutputReturn == /\ pc = "closed"
                /\ frameLive' = FALSE /\ pc' = "exec"
                /\ UNCHANGED <<open, identIn, msgs, pass, calls>>

RealExec(replaced) == /\ pc = "exec"
                      /\ pc' = IF replaced THEN "gone" ELSE "caller"
                      /\ calls' = calls + 1
                      /\ UNCHANGED <<open, identIn, frameLive, msgs, pass>>

Next == \/ \E p \in BOOLEAN : Enter(p)
        \/ Skip \/ Openlog \/ Syslog \/ Closelog \/ OutputReturn
        \/ \E r \in BOOLEAN : RealExec(r)

Spec == Init /\ [][Next]_vars

TypeOK == /\ pc \in {"caller", "entered", "opened", "sent", "closed", "exec", "gone"}
          /\ open \in BOOLEAN /\ identIn \in {"none", "frame"} /\ frameLive \in BOOLEAN
          /\ msgs \in 0..2 /\ pass \in BOOLEAN /\ calls \in 0..MaxCalls

(* a later syslog(3) of the caller (or of the new image's start-up code) never reads a dead frame *)
NoDanglingIdent == identIn = "frame" => frameLive
(* what the caller finds at the real exec and afterwards is its own, closed, state *)
CallerStateRestored == pc \in {"exec", "caller", "gone"} => ~open /\ identIn = "none"
(* one message per logged call, none per filtered call *)
OneMessage == pc = "exec" => msgs = (IF pass THEN 1 ELSE 0)

(* the observation the harness makes at the real exec: (pass, open, msgs); printed for the replay oracle *)
Dump == pc = "exec" => PrintT(<<"OUT", ToJson([pass |-> pass, open |-> open, msgs |-> msgs])>>)
==================================================================================
