------------------------------ MODULE CmdlineMC ------------------------------
EXTENDS Cmdline, Json
Lens == {0, 1, 2, 127, Cap - 4, Cap - 3, Cap - 2, Cap - 1, Cap, Cap + 1, 2 * Cap}
NoDefects == {}
DefSep == {"sep_by_store", "no_final_nul"}
Dump == phase = "done" => PrintT(<<"OUT", ToJson([args |-> args, cap |-> Cap, expect |-> Expected(args)])>>)
=============================================================================
