SPECIFICATION Spec
CONSTANTS
  Callers <- AllCallers
  ListTokens <- Toks
  MaxLen = 3
  Defects <- NoDefects
INVARIANTS Dump
CHECK_DEADLOCK FALSE
