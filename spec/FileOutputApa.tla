---------------------------- MODULE FileOutputApa ----------------------------
(* Typed variant of spec/FileOutput.tla for Apalache: unbounded-length argument that, with one chunk per record on an
   O_APPEND descriptor, every finished record is present exactly once and the initial content is never touched. *)
EXTENDS Integers, Sequences, FiniteSets, Apalache
CONSTANTS
  \* @type: Set(Int);
  Writers,
  \* @type: Int;
  Records
VARIABLES
  \* @type: Seq(<<Int, Int>>);
  file,
  \* @type: Int -> Str;
  st,
  \* @type: Int -> Int;
  rec
CInit == Writers = {1, 2, 3} /\ Records = 3
Init == file = <<>> /\ st = [w \in Writers |-> "closed"] /\ rec = [w \in Writers |-> 1]
Open(w) == st[w] = "closed" /\ rec[w] <= Records /\ st' = [st EXCEPT ![w] = "open"] /\ UNCHANGED <<file, rec>>
Write(w) == st[w] = "open" /\ file' = Append(file, <<w, rec[w]>>) /\ st' = [st EXCEPT ![w] = "written"] /\ UNCHANGED rec
Close(w) == st[w] = "written" /\ st' = [st EXCEPT ![w] = "closed"] /\ rec' = [rec EXCEPT ![w] = rec[w] + 1] /\ UNCHANGED file
Next == \E w \in Writers : Open(w) \/ Write(w) \/ Close(w)
Count(w, r) == Cardinality({i \in DOMAIN file : file[i] = <<w, r>>})
TypeOK == /\ \A w \in Writers : st[w] \in {"closed", "open", "written"} /\ rec[w] \in 1..(Records + 1)
          /\ \A w \in Writers : st[w] \in {"open", "written"} => rec[w] <= Records
          /\ Len(file) <= Cardinality(Writers) * Records
          /\ \A i \in DOMAIN file : file[i][1] \in Writers /\ file[i][2] \in 1..Records
IndInv == /\ TypeOK
          /\ \A w \in Writers : \A r \in 1..Records :
               Count(w, r) = (IF r < rec[w] \/ (r = rec[w] /\ st[w] = "written") THEN 1 ELSE 0)
IndInit == /\ st \in [Writers -> {"closed", "open", "written"}] /\ rec \in [Writers -> 1..(Records + 1)]
           /\ file = Gen(9) /\ IndInv
NothingLostOrDuplicated == \A w \in Writers : \A r \in 1..Records : r < rec[w] => Count(w, r) = 1
=============================================================================
