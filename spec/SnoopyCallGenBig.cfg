SPECIFICATION Spec
CONSTANTS
  Files <- FilesBig
  Calls <- CallsBig
  Results <- ResultsSmall
  MaxCalls = 1
  ThreadSafe = TRUE
  Defects <- NoDefects
INVARIANTS Dump
CHECK_DEADLOCK FALSE
