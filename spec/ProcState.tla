------------------------------ MODULE ProcState ------------------------------
(* C12: identity and environment data sources report the process's true state.                      *)
(* The state of the calling process as far as data sources can see it, the system calls that change   *)
(* it, and -- the contract -- which component of that state each data source must report              *)
(* (operator Reports, written from the option documentation in etc/snoopy.ini.in).  TLC enumerates     *)
(* reachable states (in most of them real, effective and saved ids are pairwise different, which the   *)
(* test machine can never show) as action sequences; the harness performs the same system calls for     *)
(* real, reads the state back independently (getresuid, /proc/self/*, readlink) and compares every      *)
(* data source's text with the component Reports names.                                               *)
EXTENDS Integers, Sequences, FiniteSets, TLC
CONSTANTS Uids, Gids, MaxSteps
VARIABLES ruid, euid, suid, rgid, egid, sgid, session, stdin, cwd, env, host, depth, calls, hist
vars == <<ruid, euid, suid, rgid, egid, sgid, session, stdin, cwd, env, host, depth, calls, hist>>

Init == /\ ruid = 0 /\ euid = 0 /\ suid = 0 /\ rgid = 0 /\ egid = 0 /\ sgid = 0
        /\ session = "inherited" /\ stdin = "null" /\ cwd = "work" /\ env = "normal" /\ host = "inherited" /\ depth = 1 /\ calls = 0 /\ hist = <<>>
Log(a) == hist' = Append(hist, a)
Budget == Len(hist) < MaxSteps

(* setresgid / setresuid: privileged processes may set anything; others only permute their current ids *)
SetResGid(r, e, s) == /\ Budget /\ (euid = 0 \/ {r, e, s} \subseteq {rgid, egid, sgid}) /\ <<r, e, s>> # <<rgid, egid, sgid>>
                      /\ rgid' = r /\ egid' = e /\ sgid' = s /\ Log([a |-> "gids", r |-> r, e |-> e, s |-> s])
                      /\ UNCHANGED <<ruid, euid, suid, session, stdin, cwd, env, host, depth, calls>>
SetResUid(r, e, s) == /\ Budget /\ (euid = 0 \/ {r, e, s} \subseteq {ruid, euid, suid}) /\ <<r, e, s>> # <<ruid, euid, suid>>
                      /\ ruid' = r /\ euid' = e /\ suid' = s /\ Log([a |-> "ids", r |-> r, e |-> e, s |-> s])
                      /\ UNCHANGED <<rgid, egid, sgid, session, stdin, cwd, env, host, depth, calls>>
Setsid == /\ Budget /\ session = "inherited" /\ session' = "own" /\ Log([a |-> "setsid"])
          /\ UNCHANGED <<ruid, euid, suid, rgid, egid, sgid, stdin, cwd, env, host, depth, calls>>
Stdin(x) == /\ Budget /\ x # stdin /\ stdin' = x /\ Log([a |-> "stdin", to |-> x])
            /\ UNCHANGED <<ruid, euid, suid, rgid, egid, sgid, session, cwd, env, host, depth, calls>>
Chdir(x) == /\ Budget /\ x # cwd /\ euid = 0 /\ cwd' = x /\ Log([a |-> "cwd", to |-> x])
            /\ UNCHANGED <<ruid, euid, suid, rgid, egid, sgid, session, stdin, env, host, depth, calls>>
Env(x) == /\ Budget /\ x # env /\ env' = x /\ Log([a |-> "env", to |-> x])
          /\ UNCHANGED <<ruid, euid, suid, rgid, egid, sgid, session, stdin, cwd, host, depth, calls>>
(* sethostname in the harness's own UTS namespace: 1, 63 and 64 (HOST_NAME_MAX) byte names *)
Hostname(x) == /\ Budget /\ x # host /\ euid = 0 /\ host' = x /\ Log([a |-> "host", to |-> x])
               /\ UNCHANGED <<ruid, euid, suid, rgid, egid, sgid, session, stdin, cwd, env, depth, calls>>
(* fork: the child continues, one level deeper in the ancestry; its name is chosen by the harness *)
Fork(n) == /\ Budget /\ depth < 3 /\ depth' = depth + 1 /\ Log([a |-> "fork", name |-> n])
           /\ UNCHANGED <<ruid, euid, suid, rgid, egid, sgid, session, stdin, cwd, env, host, calls>>
(* an exec call (failing): every data source is evaluated in the current state *)
Call == /\ Budget /\ calls < 2 /\ calls' = calls + 1 /\ Log([a |-> "call"])
        /\ UNCHANGED <<ruid, euid, suid, rgid, egid, sgid, session, stdin, cwd, env, host, depth>>
Next == \/ \E r, e, s \in Gids : SetResGid(r, e, s)
        \/ \E r, e, s \in Uids : SetResUid(r, e, s)
        \/ Setsid \/ (\E x \in {"null", "pty", "pipe"} : Stdin(x)) \/ (\E x \in {"work", "deep", "renamed", "deleted", "toolong"} : Chdir(x))
        \/ (\E x \in {"normal", "empty", "sudo", "logname", "huge", "noeq", "sudo254", "logname300"} : Env(x))
        \/ (\E x \in {"h1", "h63", "h64"} : Hostname(x))
        \/ (\E n \in {"plain", "paren", "space"} : Fork(n)) \/ Call
Spec == Init /\ [][Next]_vars

(* the contract: data source -> the state component (as read back independently by the harness) it must print *)
Reports == [ uid |-> "ruid", euid |-> "euid", gid |-> "rgid", egid |-> "egid",
             username |-> "name(ruid)", eusername |-> "name(euid)", group |-> "gname(rgid)", egroup |-> "gname(egid)",
             pid |-> "pid", ppid |-> "ppid", sid |-> "sid", tid_kernel |-> "ktid", tid |-> "pthread_self",
             cwd |-> "cwd", hostname |-> "hostname", tty |-> "tty(stdin)", tty_uid |-> "owner(tty(stdin))", tty_username |-> "name(owner(tty(stdin)))",
             login |-> "login", env |-> "env[NAME]", env_all |-> "environ", cgroup |-> "cgroup line", rpname |-> "root ancestor name",
             timestamp |-> "now", datetime |-> "now", snoopy_version |-> "version" ]
(* states TLC must be able to reach: all six ids pairwise different from their counterparts *)
AllDistinct == ruid # euid /\ euid # suid /\ ruid # suid /\ rgid # egid /\ egid # sgid /\ rgid # sgid
NeverAllDistinct == ~(AllDistinct /\ calls > 0)          \* expected to be VIOLATED: witness that such states are explored
=============================================================================
