SPECIFICATION Spec
CONSTANTS
  Names <- N3
  MaxDepth = 3
  MaxList = 2
  Selves <- S2
  PrefixPairs <- PP
  Unreadable <- U03
  Defects <- D4
INVARIANTS ImplExact SelfNeverCounts
CHECK_DEADLOCK FALSE
