SPECIFICATION Spec
CONSTANTS
  Threads <- T3
  NCalls = 1
  Sections <- SecMeasured
  MaxPreempt = 1
  Forkers <- Fork1
  AtFork = "locked"
  Defects <- NoDefects
INVARIANTS Dump
CHECK_DEADLOCK FALSE
