------------------------------ MODULE IoFaults ------------------------------
(* C03: logging failures never block, signal or abort the exec -- as a monitor over the system-call     *)
(* stream of one wrapped exec call (recorded with strace between the harness's ENTER / LEAVE markers,    *)
(* with one call made to fail by injection, or with a sink in a bad state).  The monitor is the contract: *)
(*   - every socket the library creates is non-blocking and close-on-exec; every send carries             *)
(*     MSG_DONTWAIT and MSG_NOSIGNAL (so no sink can block the caller or raise SIGPIPE);                  *)
(*   - no signal is delivered between ENTER and LEAVE;                                                   *)
(*   - the real exec is attempted exactly once, with the caller's arguments, after every descriptor the   *)
(*     library opened during the call has been closed again (a failed connect must not leak its socket);  *)
(*   - the call returns the real exec's result to the caller and the process ends normally.               *)
(* Lines that break a rule are collected in `bad` with a reason, all lines are consumed.                  *)
EXTENDS Integers, Sequences, FiniteSets, TLC, Json, IOUtils
T == ndJsonDeserialize(IOEnv.TRACE)
VARIABLES l, phase, fds, execs, bad
vars == <<l, phase, fds, execs, bad>>
Init == l = 1 /\ phase = "idle" /\ fds = {} /\ execs = 0 /\ bad = {}
Flag(code) == bad' = bad \cup {<<l, code>>}
Step(r) ==
    CASE r.e = "begin"  -> phase' = "idle" /\ fds' = {} /\ execs' = 0 /\ UNCHANGED bad
      [] r.e = "enter"  -> phase' = "incall" /\ UNCHANGED <<fds, execs, bad>>
      [] r.e = "open"   -> fds' = (IF r.ok /\ phase = "incall" THEN fds \cup {r.fd} ELSE fds) /\ UNCHANGED <<phase, execs, bad>>
      [] r.e = "socket" -> /\ fds' = (IF r.ok /\ phase = "incall" THEN fds \cup {r.fd} ELSE fds)
                           /\ IF phase = "incall" /\ ~(r.nonblock /\ r.cloexec) THEN Flag("blocking-or-inheritable-socket") ELSE UNCHANGED bad
                           /\ UNCHANGED <<phase, execs>>
      [] r.e = "send"   -> /\ IF phase = "incall" /\ ~(r.dontwait /\ r.nosignal) THEN Flag("send-may-block-or-signal") ELSE UNCHANGED bad
                           /\ UNCHANGED <<phase, fds, execs>>
      [] r.e = "close"  -> fds' = fds \ {r.fd} /\ UNCHANGED <<phase, execs, bad>>
      [] r.e = "signal" -> (IF phase \in {"incall", "execd"} THEN Flag("signal") ELSE UNCHANGED bad) /\ UNCHANGED <<phase, fds, execs>>
      [] r.e = "exec"   -> /\ execs' = execs + 1 /\ phase' = "execd"
                           /\ IF phase # "incall" \/ execs >= 1 THEN Flag("exec-count")
                              ELSE IF ~r.args_ok THEN Flag("exec-args")
                              ELSE IF fds # {} THEN Flag("descriptor-left-open")
                              ELSE UNCHANGED bad
                           /\ UNCHANGED fds
      [] r.e = "leave"  -> /\ phase' = "returned" /\ (IF phase # "execd" THEN Flag("no-exec-before-return") ELSE UNCHANGED bad) /\ UNCHANGED <<fds, execs>>
      [] r.e = "end"    -> /\ (IF phase # "returned" \/ r.status # "ok" \/ ~r.result_ok THEN Flag("did-not-complete") ELSE UNCHANGED bad)
                           /\ UNCHANGED <<phase, fds, execs>>
      [] OTHER -> UNCHANGED <<phase, fds, execs, bad>>
Next == l <= Len(T) /\ Step(T[l]) /\ l' = l + 1
Spec == Init /\ [][Next]_vars
Report == l = Len(T) + 1 => PrintT(<<"OUT", ToJson([bad |-> bad, consumed |-> l - 1])>>)
=============================================================================
