------------------------------ MODULE IoFaults ------------------------------
(* C03: logging failures never block, signal or abort the exec -- as a monitor over the system-call     *)
(* stream of one wrapped exec call (recorded with strace between the harness's ENTER / LEAVE markers,    *)
(* with one call made to fail by injection, or with a sink in a bad state).  The monitor is the contract: *)
(*   - no send can block: the socket is non-blocking or the send carries MSG_DONTWAIT; a send on a        *)
(*     connection-oriented socket carries MSG_NOSIGNAL (so no sink can block the caller or raise SIGPIPE); *)
(*   - no signal is delivered between ENTER and LEAVE;                                                   *)
(*   - the real exec is attempted exactly once, with the caller's arguments, after every descriptor the   *)
(*     library opened during the call has been closed again (a failed connect must not leak its socket);  *)
(*   - the call returns the real exec's result to the caller and the process ends normally.               *)
(* Lines that break a rule are collected in `bad` with a reason, all lines are consumed.                  *)
EXTENDS Integers, Sequences, FiniteSets, TLC, Json, IOUtils
T == ndJsonDeserialize(IOEnv.TRACE)
VARIABLES l, phase, fds, nb, execs, bad
vars == <<l, phase, fds, nb, execs, bad>>
Init == l = 1 /\ phase = "idle" /\ fds = {} /\ nb = {} /\ execs = 0 /\ bad = {}
Flag(code) == bad' = bad \cup {<<l, code>>}
Step(r) ==
    CASE r.e = "begin"  -> phase' = "idle" /\ fds' = {} /\ nb' = {} /\ execs' = 0 /\ UNCHANGED bad
      [] r.e = "enter"  -> phase' = "incall" /\ UNCHANGED <<fds, nb, execs, bad>>
      [] r.e = "open"   -> fds' = (IF r.ok /\ phase = "incall" THEN fds \cup {r.fd} ELSE fds) /\ UNCHANGED <<phase, nb, execs, bad>>
      [] r.e = "socket" -> /\ fds' = (IF r.ok /\ phase = "incall" THEN fds \cup {r.fd} ELSE fds)
                           /\ nb' = (IF r.ok /\ r.nonblock THEN nb \cup {r.fd} ELSE nb \ {r.fd})
                           /\ UNCHANGED <<phase, execs, bad>>
      [] r.e = "send"   -> /\ IF phase = "incall" /\ ~(r.dontwait \/ r.fd \in nb) THEN Flag("send-may-block")
                              ELSE IF phase = "incall" /\ r.stream /\ ~r.nosignal THEN Flag("send-may-raise-sigpipe") ELSE UNCHANGED bad
                           /\ UNCHANGED <<phase, fds, nb, execs>>
      [] r.e = "close"  -> fds' = fds \ {r.fd} /\ nb' = nb \ {r.fd} /\ UNCHANGED <<phase, execs, bad>>
      [] r.e = "signal" -> (IF phase \in {"incall", "execd"} THEN Flag("signal") ELSE UNCHANGED bad) /\ UNCHANGED <<phase, fds, nb, execs>>
      [] r.e = "exec"   -> /\ execs' = execs + 1 /\ phase' = "execd"
                           /\ IF phase # "incall" \/ execs >= 1 THEN Flag("exec-count")
                              ELSE IF ~r.args_ok THEN Flag("exec-args")
                              ELSE IF fds # {} THEN Flag("descriptor-left-open")
                              ELSE UNCHANGED bad
                           /\ UNCHANGED <<fds, nb>>
      [] r.e = "leave"  -> /\ phase' = "returned" /\ (IF phase # "execd" THEN Flag("no-exec-before-return") ELSE UNCHANGED bad) /\ UNCHANGED <<fds, nb, execs>>
      [] r.e = "end"    -> /\ (IF phase # "returned" \/ r.status # "ok" \/ ~r.result_ok THEN Flag("did-not-complete") ELSE UNCHANGED bad)
                           /\ UNCHANGED <<phase, fds, nb, execs>>
      [] OTHER -> UNCHANGED <<phase, fds, nb, execs, bad>>
Next == l <= Len(T) /\ Step(T[l]) /\ l' = l + 1
Spec == Init /\ [][Next]_vars
Report == l = Len(T) + 1 => PrintT(<<"OUT", ToJson([bad |-> bad, consumed |-> l - 1])>>)
=============================================================================
