SPECIFICATION Spec
CONSTANTS
  Files <- FilesAll
  Calls <- CallsAll
  Results <- ResultsAll
  MaxCalls = 1
  ThreadSafe = TRUE
  Defects <- NoDefects
INVARIANTS Dump
CHECK_DEADLOCK FALSE
