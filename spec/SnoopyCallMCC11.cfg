SPECIFICATION Spec
CONSTANTS
  Files <- FilesC11
  Calls <- CallsC11
  Results <- ResultsFail
  MaxCalls = 2
  ThreadSafe = FALSE
  Defects <- NoDefects
INVARIANTS ExactlyOnce AfterLogging Untouched OneFaithfulRecord ResetInvariant NoResidueAtExec
CHECK_DEADLOCK FALSE
