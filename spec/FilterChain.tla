----------------------------- MODULE FilterChain -----------------------------
(* C07: the filter chain is a conjunction over the filters this build knows.                       *)
(* A chain is a sequence of ELEMENTS (the text between semicolons); an element is [name, arg]       *)
(* (name "" = empty element).  CONTRACT: Decision = PASS iff every element whose name is a known    *)
(* filter passes; unknown names and empty elements are ignored; hence order and repetition do not   *)
(* matter.  IMPLEMENTATION-SHAPED: the strtok_r loop of src/filtering.c, one action per element,    *)
(* with DEFECT switches for realistic scanner mistakes.                                            *)
EXTENDS Integers, Sequences, FiniteSets, TLC
CONSTANTS Elements,     \* alphabet: records [name, arg] ; arg is a sequence of uid tokens or <<>> ; "" name = empty element
          MaxLen,
          Uids,         \* real uids of the calling process (0 = root)
          Defects       \* subset of {"stop_at_unknown", "arg_leak", "prefix_match", "first_only", "empty_drops"}

Known == {"only_root", "only_uid", "exclude_uid", "only_tty", "noop", "exclude_spawns_of"}
Proc == [uid : Uids, tty : BOOLEAN]
InList(u, l) == \E i \in 1..Len(l) : l[i] = u

(* contract semantics of each known filter *)
FilterPass(name, arg, ps) ==
    CASE name = "only_root"   -> ps.uid = 0
      [] name = "only_uid"    -> InList(ps.uid, arg)
      [] name = "exclude_uid" -> ~InList(ps.uid, arg)
      [] name = "only_tty"    -> ps.tty
      [] name = "noop"        -> TRUE
      [] name = "exclude_spawns_of" -> TRUE      \* in chains its list holds numbers, which no ancestor of the harness is called (C15 covers the filter itself)
      [] OTHER -> TRUE
Decision(chain, ps) == \A i \in 1..Len(chain) : chain[i].name \in Known => FilterPass(chain[i].name, chain[i].arg, ps)

RECURSIVE SeqsUpTo(_)
SeqsUpTo(n) == IF n = 0 THEN {<<>>}
               ELSE LET P == SeqsUpTo(n-1) IN P \cup {Append(s, x) : s \in {p \in P : Len(p) = n-1}, x \in Elements}
Chains == SeqsUpTo(MaxLen)

-----------------------------------------------------------------------------
VARIABLES chain, ps, i, lastArg, verdict
vars == <<chain, ps, i, lastArg, verdict>>
Init == chain \in Chains /\ ps \in Proc /\ i = 1 /\ lastArg = <<>> /\ verdict = "scanning"

(* how the implementation resolves a name *)
IsPrefixOfKnown(n) == n \in {"only", "exclude_u", "only_t", ""}             \* proper prefixes of registry names in the alphabet
FirstWithPrefix(n) == CASE n = "only" -> "only_root" [] n = "exclude_u" -> "exclude_uid" [] n = "only_t" -> "only_tty"
                        [] n = "" -> "exclude_uid" [] OTHER -> n      \* registry order: exclude_spawns_of, exclude_uid, only_root, only_tty, only_uid
Resolve(n) == IF n \in Known THEN n
              ELSE IF "prefix_match" \in Defects /\ IsPrefixOfKnown(n) /\ n # "" THEN FirstWithPrefix(n) ELSE "unknown"

Scan == /\ verdict = "scanning" /\ i <= Len(chain)
        /\ LET e == chain[i]
               hasArg == e.arg # <<>> \/ e.colon
               arg == IF "arg_leak" \in Defects /\ ~hasArg THEN lastArg ELSE e.arg
               r == Resolve(e.name)
           IN /\ lastArg' = IF hasArg THEN e.arg ELSE lastArg
              /\ IF e.name = "" /\ ~e.colon                                  \* empty element: strtok_r never yields it
                 THEN verdict' = (IF "empty_drops" \in Defects THEN "DROP" ELSE verdict)
                 ELSE IF r = "unknown"
                      THEN verdict' = (IF "stop_at_unknown" \in Defects THEN "PASS" ELSE verdict)
                      ELSE IF ~FilterPass(r, arg, ps) THEN verdict' = "DROP"
                      ELSE verdict' = (IF "first_only" \in Defects THEN "PASS" ELSE verdict)
        /\ i' = i + 1 /\ UNCHANGED <<chain, ps>>
End == /\ verdict = "scanning" /\ i > Len(chain) /\ verdict' = "PASS" /\ UNCHANGED <<chain, ps, i, lastArg>>
Next == Scan \/ End
Spec == Init /\ [][Next]_vars

-----------------------------------------------------------------------------
ImplIsConjunction == verdict \in {"PASS", "DROP"} => (verdict = "PASS") = Decision(chain, ps)
(* consequences of the contract, checked on every chain: reordering and repeating elements change nothing *)
Perms(s) == {p \in [1..Len(s) -> 1..Len(s)] : \A a, b \in 1..Len(s) : p[a] = p[b] => a = b}
OrderIrrelevant == i = 1 => \A p \in Perms(chain) : Decision([k \in 1..Len(chain) |-> chain[p[k]]], ps) = Decision(chain, ps)
RepeatIrrelevant == i = 1 => \A k \in 1..Len(chain) : Decision(Append(chain, chain[k]), ps) = Decision(chain, ps)
EmptyPasses == Decision(<<>>, ps)
=============================================================================
