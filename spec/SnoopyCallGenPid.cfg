SPECIFICATION Spec
CONSTANTS
  Files <- FilesSyslog
  Calls <- CallsPid
  Results <- ResultsFail
  MaxCalls = 1
  ThreadSafe = TRUE
  Defects <- NoDefects
INVARIANTS Dump
CHECK_DEADLOCK FALSE
