SPECIFICATION Spec
CONSTANTS
  Threads <- T2
  NCalls = 1
  Sections <- Sec4
  MaxPreempt = 9
  MinListAtFork = 0
  Forkers <- Fork1
  AtFork = "none"
  Defects <- NoDefects
INVARIANTS OneEntryPerThread CountMatches Isolation Quiescent CountSane NoDeadlock
VIEW View
CHECK_DEADLOCK FALSE
