SPECIFICATION Spec
CONSTANTS
  Callers <- AllCallers
  ListTokens <- Toks
  MaxLen = 2
  Defects <- DL
INVARIANTS ImplExact Complement
CHECK_DEADLOCK FALSE
