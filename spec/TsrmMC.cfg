SPECIFICATION Spec
CONSTANTS
  Threads <- T3
  NCalls = 2
  Sections <- Sec7
  MaxPreempt = 3
  MinListAtFork = 0
  Forkers <- NoFork
  AtFork = "locked"
  Defects <- NoDefects
INVARIANTS OneEntryPerThread CountMatches Isolation Quiescent CountSane NoDeadlock
VIEW View
CHECK_DEADLOCK FALSE
