SPECIFICATION Spec
CONSTANTS
  MaxLines = 2
  MaxSteps = 3
  LineAlphabet <- Lines
  DefectC18 = TRUE
  DefectC19 = FALSE
  AtomicWrite = TRUE
  TmpTrunc = TRUE
INVARIANTS TypeOK ImplRefinesContract Idempotent StatusAfterEnable ContractIdempotent RoundTrip DisableKeepsOthers OldOrNew
CHECK_DEADLOCK FALSE
