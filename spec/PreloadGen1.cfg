SPECIFICATION GenSpec
CONSTANTS
  MaxLines = 2
  MaxSteps = 1
  LineAlphabet <- Lines
  DefectC18 = FALSE
  DefectC19 = FALSE
  AtomicWrite = TRUE
  TmpTrunc = TRUE
INVARIANTS Dump
CHECK_DEADLOCK FALSE
