SPECIFICATION Spec
CONSTANTS
  Callers <- AllCallers
  ListTokens <- Toks
  MaxLen = 4
  Defects <- NoDefects
INVARIANTS Dump
CHECK_DEADLOCK FALSE
