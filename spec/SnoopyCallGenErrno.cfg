SPECIFICATION Spec
CONSTANTS
  Files <- FilesTwo
  Calls <- CallOne
  Results <- ResultsErrno
  MaxCalls = 1
  ThreadSafe = TRUE
  Defects <- NoDefects
INVARIANTS Dump
CHECK_DEADLOCK FALSE
