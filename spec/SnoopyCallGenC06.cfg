SPECIFICATION Spec
CONSTANTS
  Files <- FilesC06
  Calls <- CallsC06
  Results <- ResultsFail
  MaxCalls = 2
  ThreadSafe = TRUE
  Defects <- NoDefects
INVARIANTS Dump
CHECK_DEADLOCK FALSE
