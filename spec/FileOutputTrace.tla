--------------------------- MODULE FileOutputTrace ---------------------------
(* Trace validation for C17: the system calls the production library makes on the log file for each  *)
(* record (recorded with strace) must follow the protocol FileOutput.tla shows to be necessary:      *)
(* open for appending (never truncating) ; exactly one write carrying the whole record ; close.      *)
EXTENDS Integers, Sequences, FiniteSets, TLC, Json, IOUtils
T == ndJsonDeserialize(IOEnv.TRACE)
VARIABLES l, st, bad
vars == <<l, st, bad>>
Init == l = 1 /\ st = "closed" /\ bad = {}
Allowed(s, r) ==
    CASE r.e = "record" -> s = "closed"                                  \* start of the next record's events
      [] r.e = "open"   -> s = "closed" /\ r.append /\ ~r.trunc
      [] r.e = "write"  -> s = "open" /\ r.whole
      [] r.e = "close"  -> s \in {"written"}
      [] r.e = "end"    -> s = "closed"
      [] OTHER -> FALSE
After(s, r) == CASE r.e = "open" -> "open" [] r.e = "write" -> IF s = "open" THEN "written" ELSE "overwritten"
                 [] r.e = "close" -> "closed" [] r.e = "record" -> "closed" [] OTHER -> s
Next == /\ l <= Len(T)
        /\ LET r == T[l] IN
           /\ bad' = IF Allowed(st, r) THEN bad ELSE bad \cup {l}
           /\ st' = After(st, r)
        /\ l' = l + 1
Spec == Init /\ [][Next]_vars
Report == l = Len(T) + 1 => PrintT(<<"OUT", ToJson([bad |-> bad, consumed |-> l - 1])>>)
=============================================================================
