SPECIFICATION Spec
CONSTANTS
  Elements <- Small
  MaxLen = 5
  Uids = {0, 1000, 1002}
  Defects <- NoDefects
INVARIANTS ImplIsConjunction OrderIrrelevant RepeatIrrelevant EmptyPasses
CHECK_DEADLOCK FALSE
