SPECIFICATION Spec
CONSTANTS
  Names <- N3
  MaxDepth = 5
  MaxList = 3
  Selves <- S2
  PrefixPairs <- PP
  Unreadable <- U03
  Defects <- NoDefects
INVARIANTS ImplExact SelfNeverCounts
CHECK_DEADLOCK FALSE
