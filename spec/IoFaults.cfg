SPECIFICATION Spec
INVARIANTS Report
CHECK_DEADLOCK FALSE
