SPECIFICATION Spec
CONSTANTS
  Uids <- U3
  Gids <- G3
  MaxSteps = 3
INVARIANTS Dump
CHECK_DEADLOCK FALSE
