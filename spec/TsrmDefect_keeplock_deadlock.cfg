SPECIFICATION Spec
CONSTANTS
  Threads <- T2
  NCalls = 1
  Sections <- Sec4
  MaxPreempt = 9
  MinListAtFork = 0
  Forkers <- Fork1
  AtFork = "locked"
  Defects <- DefKeep
INVARIANTS NoDeadlock
VIEW View
CHECK_DEADLOCK FALSE
