----------------------------- MODULE ConfigFile -----------------------------
(* C08: snoopy.ini is parsed to the documented values with safe fallbacks.                         *)
(* A file is a sequence of LINES taken from an alphabet (module ConfigFileMC) in which every line   *)
(* carries its source text and, for option lines, the documented MEANING of its value token         *)
(* (written from etc/snoopy.ini.in and the property text, not from the parsers).  This module is    *)
(* the composition semantics: sections, '=' / ':' separators, comments, continuation lines,         *)
(* unknown options, "last occurrence wins", unparsable values.                                      *)
(*                                                                                                *)
(* CONTRACT: Allowed(file)[o] = the SET of settings option o may end up with.  It is a singleton    *)
(* except where the documentation is silent: an unparsable last occurrence may leave the default     *)
(* or the previous valid occurrence.  IMPLEMENTATION-SHAPED: Impl(file)[o] = what today's parser     *)
(* does (previous value survives an unparsable one; facility/level/length garbage resets to          *)
(* default), checked to lie within Allowed.                                                        *)
EXTENDS Integers, Sequences, FiniteSets, TLC
CONSTANTS Lines,      \* alphabet of line records
          MaxLines,   \* lines after the header
          Headers,    \* possible first lines (section headers or nothing)
          Defaults    \* [option |-> default setting as `snoopyctl conf` prints it]

Options == DOMAIN Defaults
(* line records:
   [k |-> "sec", name, src]
   [k |-> "opt", o, src, ok, val]      ok = the value token is well-formed; val = documented setting (conf syntax)
   [k |-> "cont", src, vals (, sec)]   continuation line: value applied to the previous option NAME; vals = [option |-> [ok, val]];
                                       sec: the section it opens when there is no previous key (text starting with "[")
   [k |-> "other", src, keepsName]     comment, blank, unknown option, garbage; keepsName: does the "previous name" survive it *)

RECURSIVE SeqsUpTo(_)
SeqsUpTo(n) == IF n = 0 THEN {<<>>}
               ELSE LET P == SeqsUpTo(n-1) IN P \cup {Append(s, x) : s \in {p \in P : Len(p) = n-1}, x \in Lines}
Files == {<<h>> \o body : h \in Headers, body \in SeqsUpTo(MaxLines)}

(* state of the reader while it walks the file *)
Walk(file) ==
    LET F[i \in 0..Len(file)] ==
          IF i = 0 THEN [sec |-> "", prev |-> "", allowed |-> [o \in Options |-> {Defaults[o]}], impl |-> Defaults]
          ELSE LET st == F[i-1]  l == file[i] IN
               CASE l.k = "sec" -> [st EXCEPT !.sec = l.name, !.prev = ""]
                 [] l.k = "opt" ->
                      IF st.sec # "snoopy" THEN [st EXCEPT !.prev = l.o]
                      ELSE IF l.ok
                           THEN [st EXCEPT !.prev = l.o, !.allowed[l.o] = {l.val}, !.impl[l.o] = l.val]
                           ELSE [st EXCEPT !.prev = l.o, !.allowed[l.o] = @ \cup {Defaults[l.o]},
                                           !.impl[l.o] = IF l.resets THEN Defaults[l.o] ELSE @]
                 [] l.k = "cont" ->
                      IF st.prev = "" /\ "sec" \in DOMAIN l THEN [st EXCEPT !.sec = l.sec]     \* no key to continue: an indented "[name] ..." is a section header
                      ELSE IF st.prev \notin Options \/ st.sec # "snoopy" THEN st
                      ELSE LET m == l.vals[st.prev] IN
                           IF m.ok THEN [st EXCEPT !.allowed[st.prev] = {m.val}, !.impl[st.prev] = m.val]
                           ELSE [st EXCEPT !.allowed[st.prev] = @ \cup {Defaults[st.prev]},
                                           !.impl[st.prev] = IF m.resets THEN Defaults[st.prev] ELSE @]
                 [] l.k = "other" -> IF l.keepsName THEN st ELSE [st EXCEPT !.prev = l.newName]
    IN F[Len(file)]
Allowed(file) == Walk(file).allowed
Impl(file) == Walk(file).impl

VARIABLES file, done
Init == file \in Files /\ done = FALSE
Next == ~done /\ done' = TRUE /\ UNCHANGED file
Spec == Init /\ [][Next]_<<file, done>>

ImplWithinContract == \A o \in Options : Impl(file)[o] \in Allowed(file)[o]
(* the contract never allows more than {previous valid occurrence, default} *)
AtMostTwo == \A o \in Options : Cardinality(Allowed(file)[o]) <= 2
(* options outside [snoopy] change nothing *)
OtherSectionsInert ==
    (\A i \in 1..Len(file) : file[i].k = "sec" => file[i].name # "snoopy") => \A o \in Options : Allowed(file)[o] = {Defaults[o]}
=============================================================================
