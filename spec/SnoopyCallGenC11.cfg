SPECIFICATION Spec
CONSTANTS
  Files <- FilesC11
  Calls <- CallsC11
  Results <- ResultsFail
  MaxCalls = 2
  ThreadSafe = TRUE
  Defects <- NoDefects
INVARIANTS Dump
CHECK_DEADLOCK FALSE
