SPECIFICATION Spec
CONSTANTS
  Files <- FilesAll
  Calls <- CallsSmall
  Results <- ResultsSmall
  MaxCalls = 2
  ThreadSafe = FALSE
  Defects <- NoDefects
INVARIANTS ExactlyOnce AfterLogging Untouched OneFaithfulRecord ResetInvariant NoResidueAtExec
CHECK_DEADLOCK FALSE
