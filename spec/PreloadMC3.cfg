SPECIFICATION Spec
CONSTANTS
  MaxLines = 3
  MaxSteps = 2
  LineAlphabet <- Lines
  DefectC18 = FALSE
  DefectC19 = FALSE
  AtomicWrite = TRUE
  TmpTrunc = TRUE
INVARIANTS TypeOK ImplRefinesContract Idempotent StatusAfterEnable ContractIdempotent RoundTrip DisableKeepsOthers OldOrNew
CHECK_DEADLOCK FALSE
