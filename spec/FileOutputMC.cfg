SPECIFICATION Spec
CONSTANTS
  Writers = {1, 2, 3}
  Records = 2
  Chunks = 1
  OAppend = TRUE
  Initial = 2
INVARIANTS InitialKept WholeRecords NothingLost
CHECK_DEADLOCK FALSE
