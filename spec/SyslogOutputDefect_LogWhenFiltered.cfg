SPECIFICATION Spec
CONSTANTS
  MaxCalls = 3
  Defects = {"LogWhenFiltered"}
INVARIANTS TypeOK NoDanglingIdent CallerStateRestored OneMessage
CHECK_DEADLOCK FALSE
