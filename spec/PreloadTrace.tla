---------------------------- MODULE PreloadTrace ----------------------------
(* Trace validation for C18/C19: every command the REAL snoopyctl executed (recorded by the     *)
(* harness as abstracted before/after file contents, exit status, status report) must be a step *)
(* the CONTRACT of Preload allows.  All lines are consumed; rejected line numbers are collected  *)
(* in `bad` and printed, so one run reports every violating step (not just the first).           *)
EXTENDS PreloadDefs, Json, IOUtils
T == ndJsonDeserialize(IOEnv.TRACE)
VARIABLES l, cur, bad
tvars == <<l, cur, bad>>

TInit == l = 1 /\ cur = Absent /\ bad = {}
StepOK(r) == CASE r.k = "init"    -> TRUE
               [] r.k = "enable"  -> EnableOK(cur, r.new, r.exit)
               [] r.k = "disable" -> DisableOK(cur, r.new, r.exit)
               [] r.k = "status"  -> StatusOK(cur, r.out)
               [] OTHER -> FALSE
TNext == /\ l <= Len(T)
         /\ LET r == T[l] IN
            /\ bad' = IF StepOK(r) THEN bad ELSE bad \cup {l}
            /\ cur' = IF r.k = "init" THEN r.disk ELSE IF r.k = "status" THEN cur ELSE r.new
         /\ l' = l + 1
TSpec == TInit /\ [][TNext]_tvars
Report == l = Len(T) + 1 => PrintT(<<"OUT", ToJson([bad |-> bad, consumed |-> l - 1])>>)
=============================================================================
