SPECIFICATION Spec
CONSTANTS
  D = 1048575
  M = 1048575
  Tokens <- TokensFull
  MaxTok = 2
  SrcCap = 990
  TagBufSize = 1124
  Defects <- NoDefects
INVARIANTS Dump
CHECK_DEADLOCK FALSE
