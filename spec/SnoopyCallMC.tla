---------------------------- MODULE SnoopyCallMC ----------------------------
EXTENDS SnoopyCall, Json
D == Defaults
FilesAll == {
  [D EXCEPT !.fmt = "cmdfile", !.out = "file"],
  [D EXCEPT !.fmt = "static",  !.out = "socket"],
  [D EXCEPT !.fmt = "cmd",     !.out = "devlog", !.fac = "local3", !.lvl = "debug", !.ident = "static"],
  [D EXCEPT !.fmt = "cmdfile", !.out = "devlog", !.fac = "auth", !.lvl = "emerg", !.ident = "tpl"],
  [D EXCEPT !.fmt = "cmdfile", !.out = "stdout"],
  [D EXCEPT !.fmt = "cmdfile", !.out = "stderr"],
  [D EXCEPT !.fmt = "cmdfile", !.out = "devtty"],
  [D EXCEPT !.fmt = "cmdfile", !.out = "devnull"],
  [D EXCEPT !.fmt = "cmdfile", !.out = "noop"],
  [D EXCEPT !.fmt = "cmdfile", !.out = "filenoarg"],
  [D EXCEPT !.fmt = "cmdfile", !.out = "unknown"],
  [D EXCEPT !.fmt = "cmdfile", !.out = "filetpl"],
  [D EXCEPT !.fmt = "cmdfile", !.out = "filefifo"],
  [D EXCEPT !.fmt = "cmdfile", !.out = "file",   !.chain = "drop"],
  [D EXCEPT !.fmt = "cmdfile", !.out = "stdout", !.chain = "pass;drop"],
  [D EXCEPT !.fmt = "cmdfile", !.out = "devlog", !.chain = "drop;pass"],
  [D EXCEPT !.fmt = "cmdfile", !.out = "file",   !.chain = "bogus;pass"],
  [D EXCEPT !.fmt = "cmdfile", !.out = "file",   !.chain = "empty-elems"],
  [D EXCEPT !.fmt = "empty",   !.out = "file"],
  [D EXCEPT !.fmt = "unknown", !.out = "file"],
  [D EXCEPT !.fmt = "cmdfile", !.out = "file", !.dsmax = "min"],
  [D EXCEPT !.fmt = "cmdfile", !.out = "file", !.logmax = "min"],
  [D EXCEPT !.fmt = "cmdfile", !.out = "file", !.logmax = "min", !.errlog = "yes"],
  [D EXCEPT !.fmt = "cmdfile", !.out = "file", !.dup = TRUE],
  [D EXCEPT !.fmt = "cmd",     !.out = "file"],
  [D EXCEPT !.fmt = "cmdfile", !.out = "socket107"],
  [D EXCEPT !.fmt = "cmdfile", !.out = "devlog", !.ident = "long255"],
  [D EXCEPT !.fmt = "cmdfile", !.out = "filebad", !.errlog = "yes"],
  [D EXCEPT !.fmt = "cmdfile", !.out = "devlog", !.errlog = "yes", !.sinkst = "absent"],
  [D EXCEPT !.fmt = "cmdfile", !.out = "socket", !.sinkst = "absent"],
  [D EXCEPT !.fmt = "cmdfile", !.out = "socket", !.sinkst = "full"],
  [D EXCEPT !.fmt = "cmdfile", !.out = "devlog", !.sinkst = "full"],
  [D EXCEPT !.fmt = "cmdfile", !.out = "file", !.sinkst = "absent"],
  [D EXCEPT !.fmt = "cmdfile", !.out = "stdout", !.dup = TRUE],
  [D EXCEPT !.fmt = "cmdfile", !.out = "devnull", !.dup = TRUE],
  [D EXCEPT !.fmt = "cmdfile", !.out = "file", !.dsmax = "min", !.synerr = TRUE],
  [D EXCEPT !.state = "absent"], [D EXCEPT !.state = "unreadable"], [D EXCEPT !.state = "garbage"] }
FilesSmall == {
  [D EXCEPT !.fmt = "cmdfile", !.out = "file"],
  [D EXCEPT !.fmt = "cmdfile", !.out = "stdout"],
  [D EXCEPT !.fmt = "cmdfile", !.out = "file", !.dsmax = "min"],
  [D EXCEPT !.fmt = "cmdfile", !.out = "file", !.logmax = "min", !.errlog = "yes"],
  [D EXCEPT !.fmt = "cmdfile", !.out = "devlog", !.fac = "local3", !.lvl = "debug", !.ident = "static"],
  [D EXCEPT !.fmt = "cmdfile", !.out = "file", !.chain = "drop"],
  [D EXCEPT !.fmt = "cmdfile", !.out = "file", !.dup = TRUE],
  [D EXCEPT !.state = "absent"], [D EXCEPT !.state = "unreadable"] }
Mk(k, p, a, e) == [kind |-> k, path |-> p, argv |-> a, envp |-> e]
PathsAll == {"p_norm", "p_empty", "p_long", "p_8bit"}
ArgvsAll == {"a_null", "a_empty", "a_emptystr", "a_one", "a_two", "a_huge", "a_many"}
EnvpsAll == {"e_null", "e_empty", "e_one", "e_many"}
CallsAll == {Mk("execve", p, a, e) : p \in PathsAll, a \in ArgvsAll, e \in EnvpsAll}
            \cup {Mk("execv", p, a, "e_none") : p \in PathsAll, a \in ArgvsAll}
CallsSmall == {Mk("execve", "p_norm", "a_two", "e_one"), Mk("execv", "p_long", "a_huge", "e_none"),
               Mk("execve", "p_norm", "a_null", "e_null"), Mk("execv", "p_8bit", "a_one", "e_none"),
               Mk("execve", "p_empty", "a_emptystr", "e_empty")}
FilesC06 == { [D EXCEPT !.fmt = "cmdfile", !.out = "file"], [D EXCEPT !.fmt = "cmd", !.out = "file"],
              [D EXCEPT !.fmt = "cmdfile", !.out = "file", !.dsmax = "min"], [D EXCEPT !.state = "absent"],
              [D EXCEPT !.fmt = "cmdfile", !.out = "file", !.dsmax = "big", !.logmax = "big"] }     \* limits raised (64 KiB / 128 KiB): thousands of short arguments fit
CallsC06 == {Mk(k, p, a, IF k = "execve" THEN "e_one" ELSE "e_none") : k \in {"execv", "execve"}, p \in {"p_norm", "p_long", "p_vlong"},
             a \in {"a_huge", "a_one", "a_null", "a_empty", "a_emptystr", "a_two", "a_many", "a_2g"}}
FilesC11 == {
  [D EXCEPT !.fmt = "cmdfile", !.out = "file"],
  [D EXCEPT !.fmt = "cmdfile", !.out = "file", !.dsmax = "min"],
  [D EXCEPT !.fmt = "cmdfile", !.out = "file", !.logmax = "min"],
  [D EXCEPT !.fmt = "cmdfile", !.out = "file", !.logmax = "min", !.errlog = "yes"],
  [D EXCEPT !.fmt = "cmdfile", !.out = "filebad", !.logmax = "min", !.errlog = "yes"],      \* the error report itself cannot be delivered
  [D EXCEPT !.fmt = "cmdfile", !.out = "devlog", !.fac = "local3", !.lvl = "debug", !.ident = "static"],
  [D EXCEPT !.fmt = "cmdfile", !.out = "devlog"],
  [D EXCEPT !.fmt = "cmdfile", !.out = "file", !.chain = "drop"],
  [D EXCEPT !.fmt = "cmdfile", !.out = "stdout", !.dup = TRUE],
  [D EXCEPT !.fmt = "static",  !.out = "socket"],
  [D EXCEPT !.fmt = "cmdfile", !.out = "file", !.dsmax = "min", !.logmax = "min", !.errlog = "yes", !.synerr = TRUE],
  [D EXCEPT !.fmt = "cmdfile", !.out = "devlog", !.fac = "mail", !.lvl = "crit", !.synerr = TRUE],
  [D EXCEPT !.state = "absent"], [D EXCEPT !.state = "garbage"], [D EXCEPT !.state = "unreadable"] }
CallsC11 == {Mk("execve", "p_norm", "a_huge", "e_one"), Mk("execv", "p_norm", "a_one", "e_none"),
             Mk("execve", "p_long", "a_null", "e_null"), Mk("execv", "p_norm", "a_two", "e_none")}
ResultsFail == {"ENOENT"}
(* C04: every syslog facility x level; large and binary messages at every stream / datagram sink *)
Facilities == {"auth", "authpriv", "cron", "daemon", "ftp", "kern", "local0", "local1", "local2", "local3", "local4", "local5", "local6", "local7",
               "lpr", "mail", "news", "syslog", "user", "uucp"}
Levels == {"emerg", "alert", "crit", "err", "warning", "notice", "info", "debug"}
FilesSyslog == {[D EXCEPT !.fmt = "cmd", !.out = "devlog", !.fac = f, !.lvl = l] : f \in Facilities, l \in Levels}
FilesBig == {[D EXCEPT !.fmt = "cmd", !.out = o, !.dsmax = "max", !.logmax = "max"] : o \in {"file", "socket", "devlog", "stdout", "stderr"}}
CallsBig == {Mk("execve", "p_norm", a, "e_one") : a \in {"a_100k", "a_bytes", "a_4095", "a_4096", "a_4097"}}
CallOne == {Mk("execv", "p_norm", "a_two", "e_none")}
(* C04: the pid in the syslog header has 1 to 7 digits (the harness gives the caller exactly this pid inside a private pid namespace) *)
PidClasses == {"p7", "p99999", "p100000", "p999999", "p1000000", "p4194303"}
CallsPid == {[kind |-> "execv", path |-> "p_norm", argv |-> "a_two", envp |-> "e_none", pid |-> w] : w \in PidClasses}
(* C01: every errno value *)
ResultsErrno == {"E1", "E2", "E3", "E4", "E5", "E6", "E7", "E8", "E9", "E10", "E11", "E12", "E13", "E14", "E15", "E16", "E17", "E18", "E19", "E20", "E21", "E22", "E23", "E24",
                 "E25", "E26", "E27", "E28", "E29", "E30", "E31", "E32", "E33", "E34", "E35", "E36", "E37", "E38", "E39", "E40", "E61", "E62", "E71", "E75", "E84", "E95", "E98",
                 "E104", "E110", "E111", "E113", "E122", "E125", "E130", "E131", "E133"}
FilesTwo == {[D EXCEPT !.fmt = "cmdfile", !.out = "file"], [D EXCEPT !.fmt = "cmdfile", !.out = "file", !.chain = "drop"]}
ResultsAll == {"replaced", "ENOENT", "EACCES", "E2BIG", "ENOEXEC", "ENOMEM", "ETXTBSY"}
ResultsSmall == {"replaced", "ENOENT"}
NoDefects == {}
DefCarry == {"carry_ints"}
DefStdout == {"stdout_nobuf_flush"}
DefEarly == {"exec_before_cleanup"}
DefIds == {"ids_not_reset"}
DefLeak == {"leak_on_reassign"}

Dump == (pc = "execd" /\ ncalls = MaxCalls) => PrintT(<<"OUT", ToJson(hist)>>)
=============================================================================
