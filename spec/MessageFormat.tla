---------------------------- MODULE MessageFormat ----------------------------
(* C05: expansion of a message format (also syslog ident and output-path templates) into a       *)
(* bounded buffer.  A format is a sequence of TOKENS; lengths are integers, contents are left to  *)
(* the harness (position-dependent byte patterns), so every boundary of both limits is reachable. *)
(*                                                                                               *)
(* CONTRACT  (Pieces / Fits / ResultOK): the message is the left-to-right concatenation of pieces; *)
(* a data source contributes at most D = datasource_message_max_length bytes; if the whole fits   *)
(* into M = log_message_max_length it is emitted exactly; it never exceeds M; otherwise it is an   *)
(* in-order selection of piece prefixes (skipping and truncating both conform).                   *)
(* IMPLEMENTATION-SHAPED layer: the scanner loop of src/message.c with its buffers               *)
(* (tag buffer, data-source buffer of D+1, message buffer of M+1) and util/string.c's append       *)
(* comparison, one action per append, with DEFECT switches re-creating the pre-fix code.           *)
EXTENDS Integers, Sequences, FiniteSets, TLC

CONSTANTS D, M,            \* the two limits (for the syslog ident instantiation D = M = 255)
          Tokens,          \* token alphabet for this (D, M)
          MaxTok,          \* formats have at most this many tokens
          SrcCap,          \* longest format source text the transport (one config line) can carry
          TagBufSize,      \* size of the tag buffer in message.c (name + argument)
          Defects          \* subset of {"append_off_by_one", "ds_plus_one", "lit_via_dsbuf", "tag_buf_100"}

(* token shapes:
   [t |-> "lit",  n]                         literal text of n bytes (never contains the two bytes %{ )
   [t |-> "ds",   kind, tag, out]            %{...} naming a KNOWN data source; tag = bytes between %{ and }; out = length
                                             of what the data source would produce if unbounded; kind "env" | "literal"
   [t |-> "fail"]                            %{failure}
   [t |-> "unknown", name, tag]              unknown data source; name = length of its name; tag >= name
   [t |-> "unterminated", n]                 %{ followed by n bytes and the end of the format *)
E_OPEN    == 21     \* [ERROR: Data source '
E_NOTF    == 13     \* ' not found.]
E_FAILED  == 44     \* ' failed with the following error message: '
E_CLOSE   == 2      \* ']
E_MSG     == 39     \* Artificial datasource failure triggered
E_UNTERM  == 49     \* [ERROR: Closing data source tag ('}') not found.]
MinI(a, b) == IF a < b THEN a ELSE b

SrcLen(tok) == CASE tok.t = "lit" -> tok.n
                 [] tok.t = "ds" -> tok.tag + 3
                 [] tok.t = "fail" -> 10
                 [] tok.t = "unknown" -> tok.tag + 3
                 [] tok.t = "unterminated" -> tok.n + 2
RECURSIVE SumSrc(_)
SumSrc(f) == IF f = <<>> THEN 0 ELSE SrcLen(Head(f)) + SumSrc(Tail(f))

WellFormed(f) ==
    /\ \A i \in 1..Len(f)-1 : ~(f[i].t = "lit" /\ f[i+1].t = "lit")          \* adjacent literals are one literal
    /\ \A i \in 1..Len(f)-1 : f[i].t # "unterminated"                        \* only the end can be unterminated
    /\ SumSrc(f) <= SrcCap

RECURSIVE SeqsUpTo(_)
SeqsUpTo(n) == IF n = 0 THEN {<<>>}
               ELSE LET P == SeqsUpTo(n-1) IN P \cup {Append(s, x) : s \in {p \in P : Len(p) = n-1}, x \in Tokens}
Formats == {f \in SeqsUpTo(MaxTok) : f # <<>> /\ WellFormed(f)}

-----------------------------------------------------------------------------
(* Contract: pieces [tok, sub, len, ds] ; ds = TRUE for a data source's own contribution *)
P(i, sub, len, ds) == [tok |-> i, sub |-> sub, len |-> len, ds |-> ds]
TokPieces(tok, i) ==
    CASE tok.t = "lit" -> << P(i, "text", tok.n, FALSE) >>
      [] tok.t = "ds"  -> << P(i, "out", MinI(tok.out, D), TRUE) >>
      [] tok.t = "fail" -> << P(i, "e_open", E_OPEN, FALSE), P(i, "name", 7, FALSE), P(i, "e_failed", E_FAILED, FALSE),
                             P(i, "out", MinI(E_MSG, D), TRUE), P(i, "e_close", E_CLOSE, FALSE) >>
      [] tok.t = "unknown" -> << P(i, "e_open", E_OPEN, FALSE), P(i, "name", tok.name, FALSE), P(i, "e_notfound", E_NOTF, FALSE) >>
      [] tok.t = "unterminated" -> << P(i, "e_unterminated", E_UNTERM, FALSE) >>
RECURSIVE PiecesFrom(_, _)
PiecesFrom(f, i) == IF i > Len(f) THEN <<>> ELSE TokPieces(f[i], i) \o PiecesFrom(f, i + 1)
(* after an unknown data source formatting may stop (today's code) or continue: both are expansions *)
FirstUnknown(f) == LET S == {i \in 1..Len(f) : f[i].t = "unknown"} IN IF S = {} THEN 0 ELSE CHOOSE i \in S : \A j \in S : i <= j
PiecesStop(f) == IF FirstUnknown(f) = 0 THEN PiecesFrom(f, 1) ELSE PiecesFrom(SubSeq(f, 1, FirstUnknown(f)), 1)
PiecesContinue(f) == PiecesFrom(f, 1)
RECURSIVE SumLen(_)
SumLen(ps) == IF ps = <<>> THEN 0 ELSE Head(ps).len + SumLen(Tail(ps))

-----------------------------------------------------------------------------
(* Implementation-shaped scanner *)
VARIABLES fmt, pos, out, outLen, done, writes, hist
vars == <<fmt, pos, out, outLen, done, writes, hist>>
(* out: pieces appended so far; writes: [buf, off, n, cap] records of every modelled buffer write *)

Init == /\ fmt \in Formats /\ pos = 1 /\ out = <<>> /\ outLen = 0 /\ done = FALSE /\ writes = {} /\ hist = <<>>

(* snoopy_util_string_append: the piece is appended whole if it fits, dropped otherwise.
   Buffer size M+1; fixed code: fits iff remaining > size; pre-fix: fits iff remaining >= size (NUL lands at index M+1) *)
Fits(cur, n) == IF "append_off_by_one" \in Defects THEN (M + 1) - cur >= n ELSE (M + 1) - cur > n
AppendAll(cur, ps) ==      \* fold the appends of one token; returns [len, taken, wr]
    LET F[k \in 0..Len(ps)] ==
          IF k = 0 THEN [len |-> cur, taken |-> <<>>, wr |-> {}]
          ELSE LET prev == F[k-1] IN
               IF Fits(prev.len, ps[k].len)
               THEN [len |-> prev.len + ps[k].len, taken |-> Append(prev.taken, ps[k]),
                     wr |-> prev.wr \cup {[buf |-> "msg", off |-> prev.len, n |-> ps[k].len + 1, cap |-> M + 1]}]
               ELSE prev
    IN F[Len(ps)]

(* what the C code turns a token into *)
ImplPieces(tok, i) ==
    CASE tok.t = "lit" ->
           IF "lit_via_dsbuf" \in Defects
           THEN << P(i, "text", MinI(tok.n, D + (IF "ds_plus_one" \in Defects THEN 1 ELSE 0)), FALSE) >>   \* copied through the data-source buffer
           ELSE << P(i, "text", tok.n, FALSE) >>
      [] tok.t = "ds" -> << P(i, "out", MinI(tok.out, D + (IF "ds_plus_one" \in Defects THEN 1 ELSE 0)), TRUE) >>
      [] tok.t = "fail" -> << P(i, "e_open", E_OPEN, FALSE), P(i, "name", 7, FALSE), P(i, "e_failed", E_FAILED, FALSE),
                              P(i, "out", MinI(E_MSG, D), TRUE), P(i, "e_close", E_CLOSE, FALSE) >>
      [] tok.t = "unknown" -> << P(i, "e_open", E_OPEN, FALSE), P(i, "name", tok.name, FALSE), P(i, "e_notfound", E_NOTF, FALSE) >>
      [] tok.t = "unterminated" -> << P(i, "e_unterminated", E_UNTERM, FALSE) >>

TagWrite(tok) ==            \* snprintf of the tag text into the tag buffer
    IF tok.t \in {"ds", "unknown"}
    THEN LET cap == IF "tag_buf_100" \in Defects THEN 100 ELSE TagBufSize
             n   == IF "tag_buf_100" \in Defects THEN tok.tag + 1 ELSE MinI(tok.tag + 1, cap)
         IN {[buf |-> "tag", off |-> 0, n |-> n, cap |-> cap]}
    ELSE {}

Step == /\ ~done /\ pos <= Len(fmt)
        /\ LET tok == fmt[pos] IN LET r == AppendAll(outLen, ImplPieces(tok, pos)) IN
           /\ out' = out \o r.taken /\ outLen' = r.len
           /\ writes' = writes \cup r.wr \cup TagWrite(tok)
           /\ done' = (tok.t \in {"unknown", "unterminated"} \/ pos = Len(fmt))
           /\ pos' = pos + 1
        /\ UNCHANGED <<fmt, hist>>
Finish == /\ done /\ hist = <<>>
          /\ hist' = << [fmt |-> fmt, D |-> D, M |-> M, stop |-> PiecesStop(fmt), cont |-> PiecesContinue(fmt), impl |-> out] >>
          /\ UNCHANGED <<fmt, pos, out, outLen, done, writes>>
Next == Step \/ Finish
Spec == Init /\ [][Next]_vars

-----------------------------------------------------------------------------
(* Properties: Impl => Contract *)
WritesWithin == \A w \in writes : w.off + w.n <= w.cap
Bounded      == outLen <= M
DsBounded    == \A i \in 1..Len(out) : out[i].ds => out[i].len <= D
ExactWhenFits == done =>
    /\ (SumLen(PiecesStop(fmt)) <= M /\ FirstUnknown(fmt) # 0 => out \in {PiecesStop(fmt), PiecesContinue(fmt)})
    /\ (SumLen(PiecesContinue(fmt)) <= M /\ FirstUnknown(fmt) = 0 => out = PiecesContinue(fmt))
(* whatever is emitted is an in-order selection of the pieces of the full expansion *)
IsSubseqOf(a, b) == \E g \in [1..Len(a) -> 1..Len(b)] : (\A i \in 1..Len(a)-1 : g[i] < g[i+1]) /\ (\A i \in 1..Len(a) : a[i] = b[g[i]])
=============================================================================
