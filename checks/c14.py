"""C14: UID filters decide by exact membership of the real uid (spec/UidFilters.tla)."""
import json, random
from vlib import common as c
from checks import filters

UID = {"c0": 0, "c1000": 1000, "c65534": 65534, "c65536": 65536, "c2147483647": 2147483647, "c2147483648": 2147483648, "c4294967294": 4294967294}
EUID = 4242


def token_value(tok, uid):
    """abstract list token -> decimal text, or None when the token does not exist for this caller (collision / undefined)"""
    s = str(uid)
    if tok == "self":
        return s
    if tok == "self+1":
        return str(uid + 1) if uid + 1 <= 4294967294 else None
    if tok == "self-1":
        return str(uid - 1) if uid >= 1 else None
    if tok == "prefix":
        return s[:-1] if len(s) > 1 else None
    if tok == "suffix":
        t = s[1:].lstrip("0")
        return t if t else None
    if tok == "zero":
        return "0"
    if tok == "other1":
        return "12345"
    if tok == "euid":
        return str(EUID)
    raise KeyError(tok)


def run(tier, seed, replay=None):
    rep = c.Reporter("C14", tier, seed, "model_checking")
    rnd = random.Random(seed)
    b = c.build("prod", tag="C14", cwd_etc=True)
    rep.tlc(c.run_tlc("UidFiltersMC.tla", "UidFiltersMC.cfg"))
    rep.cov["vacuity_guards"] = {d: c.run_tlc("UidFiltersMC.tla", "UidFiltersDefect_%s.cfg" % d, expect_violation=True).violated for d in ("DE", "DP", "DL")}
    g = c.run_tlc("UidFiltersMC.tla", "UidFiltersGen%d.cfg" % (3 if tier == "quick" else 4), heap="16g")
    rep.tlc(g)
    hs = [json.loads(x) for x in g.printed]
    # long lists (up to 200 items): random extensions that keep the membership verdict computable from the tokens
    for k in range(60 if tier == "quick" else 600):
        h = rnd.choice(hs)
        n = rnd.choice([20, 50, 200])
        toks = [rnd.choice(["self+1", "self-1", "prefix", "suffix", "other1", "euid"]) for _ in range(n)]
        member = rnd.random() < 0.5
        if member:
            toks[rnd.randrange(n)] = "self"
        hs.append(dict(caller=h["caller"], list=toks, member=member))
    cases, meta, skipped = [], {}, 0
    for i, h in enumerate(hs):
        uid = UID[h["caller"]]
        vals = [token_value(t, uid) for t in h["list"]]
        if any(v is None for v in vals):
            skipped += 1
            continue
        # reject accidental collisions: a non-self token whose text equals the caller's uid
        if any(v == str(uid) and t != "self" and not (t == "zero" and uid == 0) for v, t in zip(vals, h["list"])):
            skipped += 1
            continue
        # the whole option must fit into one snoopy.ini line (1023 bytes): shorten long lists, keeping the verdict
        while len(",".join(vals)) > 940:
            k = max(j for j, t in enumerate(h["list"]) if t != "self" or h["list"].count("self") > 1)
            del vals[k]
            h = dict(h, list=h["list"][:k] + h["list"][k + 1:])
        csv = ",".join(vals).encode()
        for flt, expect in (("only_uid", h["member"]), ("exclude_uid", not h["member"])):
            lab = "%s%d" % (flt[0], i)
            cases.append((lab, flt.encode() + b":" + csv, uid, EUID, False))
            meta[lab] = (h, flt, expect, csv)
    for cname, uid in UID.items():
        lab = "r" + cname
        cases.append((lab, b"only_root", uid, EUID, False))
        meta[lab] = (dict(caller=cname, list=[]), "only_root", uid == 0, b"")
    c.log("[C14] replaying %d (uid, list, filter) cases" % len(cases))
    obs = filters.run_cases(b, cases, b["root"] + "/run")
    nontriv = set()
    for lab, chain, uid, euid, tty in cases:
        h, flt, expect, csv = meta[lab]
        if len(h["list"]) >= 2:
            nontriv.add(lab)
        o = obs.get(lab)
        prob = filters.judge(o, expect)
        if prob and prob.startswith("HARNESS:"):
            rep.assumptions.append("case skipped (setup failed): " + prob[:100])
            continue
        if not prob and o and o["logged"] and not o["record"].startswith(b"%d/%d:" % (uid, EUID)):
            rep.assumptions.append("harness: record shows ids %r, wanted %d/%d" % (o["record"][:30], uid, EUID))
            continue
        if prob and len(rep.violations) >= 15:
            continue                         # enough confirmed counterexamples; each confirmation costs a fresh run
        if prob:
            o2 = filters.run_cases(b, [(lab, chain, uid, euid, tty)], b["root"] + "/confirm")
            if not filters.judge(o2.get(lab), expect):
                continue
            kinds = sorted(set(h["list"]))
            rep.violation("%s:%s:%s" % (flt, h["caller"], "+".join(kinds)[:60]),
                          "%s:%s with real uid %d (effective %d): %s" % (flt, csv.decode()[:80], uid, EUID, prob),
                          dict(filter=flt, list_tokens=h["list"], list_text=csv.decode()[:400], real_uid=uid, effective_uid=EUID, member=h.get("member")))
    # lists longer than one snoopy.ini line (up to 200 ten-digit uids): through the registry directly (static link with the scratch archives)
    import subprocess, os
    src = b["src"]
    probe = os.path.join(b["root"], "fltprobe")
    r_ = subprocess.run(["gcc", "-g", "-O1", "-w", "-I" + src + "/src", "-I" + src, "-o", probe, os.path.join(c.VERIF, "harness/fltprobe.c"),
                         src + "/src/.libs/libsnoopy-no-entrypoint.a", "-lpthread", "-ldl"], capture_output=True, text=True)
    if r_.returncode:
        raise c.MachineryError("cannot build the filter probe: " + r_.stderr[-800:])
    longcases = []
    for k in range(120 if tier == "quick" else 1200):
        cname = rnd.choice(sorted(UID))
        uid = UID[cname]
        n = rnd.choice([120, 200])
        toks = [rnd.choice(["self+1", "self-1", "prefix", "suffix", "other1", "euid"]) for _ in range(n)]
        vals = [token_value(t, uid) or "777" for t in toks]
        vals = [v if v != str(uid) else "778" for v in vals]
        member = rnd.random() < 0.5
        if member:
            vals[rnd.choice([0, n // 2, n - 1, rnd.randrange(n)])] = str(uid)       # also at the very end of a 1000+ byte list
        longcases.append((uid, ",".join(vals), member))
    inp = "".join("%d %d %s %s\n" % (uid, EUID, flt, csv) for uid, csv, member in longcases for flt in ("only_uid", "exclude_uid"))
    pr = subprocess.run([probe], input=inp, capture_output=True, text=True, timeout=600)
    outs = pr.stdout.split()
    if len(outs) != 2 * len(longcases):
        raise c.MachineryError("filter probe answered %d of %d questions: %s" % (len(outs), 2 * len(longcases), pr.stderr[-300:]))
    for i, (uid, csv, member) in enumerate(longcases):
        for j, flt in enumerate(("only_uid", "exclude_uid")):
            want = "PASS" if (member if flt == "only_uid" else not member) else "DROP"
            if outs[2 * i + j] != want:
                pos = [k for k, v in enumerate(csv.split(",")) if v == str(uid)]
                rep.violation("%s:long-list:%s" % (flt, "member-beyond-1023-bytes" if pos and len(",".join(csv.split(",")[:pos[0]])) > 1023 else "other"),
                              "%s with a list of %d uids (%d bytes), real uid %d %s: filter says %s, membership says %s" % (
                                  flt, csv.count(",") + 1, len(csv), uid, "listed at item %d" % (pos[0] + 1) if pos else "not listed", outs[2 * i + j], want),
                              dict(filter=flt, real_uid=uid, list_bytes=len(csv), member=member))
    rep.cov["long_lists_through_registry"] = len(longcases)
    rep.cov["traces_validated_against_impl"] = len(cases)
    rep.cov["evaluations"] = len(cases)
    rep.cov["distinct_nontrivial"] = len(nontriv)
    rep.cov["skipped_undefined_or_colliding"] = skipped
    rep.cov["rule"] = ("case = (caller class in 7 real uids up to 2^32-2, list of <= %d tokens {self, self+-1, decimal prefix/suffix, zero, unrelated, "
                       "the effective uid}) generated by TLC with the membership verdict, run for only_uid and exclude_uid (which must disagree), plus "
                       "lists of 20..200 items and only_root for each caller; non-trivial = list of >= 2 items" % (3 if tier == "quick" else 4))
    for h in hs[100:103]:
        rep.sample(dict(caller=h["caller"], list=h["list"], member=h["member"]))
    rep.assumptions.append("effective uid is always 4242 and never listed except through the 'euid' token, which must not match")
    return rep.finish()
