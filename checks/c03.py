"""C03: logging failures never block, signal or abort the exec (spec/IoFaults.tla as a monitor).
For a set of scenarios (every output type, formats using every data-source family, the /proc-walking filter, error logging on)
the production library runs under strace: a dry run lists the system calls issued between wrapper entry and the real exec, then
one run per (call, plausible errno) makes exactly that call fail (strace -e inject). Each run's system-call stream is abstracted
into events and validated by TLC against the monitor: sockets non-blocking/close-on-exec, sends with MSG_DONTWAIT|MSG_NOSIGNAL,
no signal, exactly one real exec with the caller's arguments after everything opened was closed, result passed through."""
import json, os, random, re, subprocess
from concurrent.futures import ThreadPoolExecutor
from vlib import common as c, drv
from checks import callflow as cf

LINE = re.compile(r"^(\d+)\s+(\w+)\((.*)$")
SIG = re.compile(r"^(\d+)\s+--- (SIG\w+) ")
ERRNOS = {"openat": ["ENOENT", "EACCES", "EMFILE"], "open": ["ENOENT", "EACCES"], "read": ["EIO", "EAGAIN"], "pread64": ["EIO"],
          "write": ["ENOSPC", "EIO", "EAGAIN"], "close": ["EIO"], "newfstatat": ["EACCES", "ENOENT"], "fstat": ["EACCES"], "stat": ["EACCES"],
          "readlink": ["EACCES", "ENOENT"], "readlinkat": ["EACCES"], "getcwd": ["ENOENT", "ERANGE"], "socket": ["EMFILE", "EAFNOSUPPORT"],
          "connect": ["ECONNREFUSED", "ENOENT", "EAGAIN", "EACCES"], "sendto": ["EAGAIN", "ENOBUFS", "ECONNREFUSED", "EPIPE", "EMSGSIZE"],
          "ioctl": ["ENOTTY", "EIO"], "lseek": ["ESPIPE"], "fcntl": ["EBADF"], "getdents64": ["EIO"], "uname": ["EFAULT"], "access": ["EACCES"],
          "faccessat": ["EACCES"], "faccessat2": ["EACCES"], "getpid": [], "statx": ["EACCES"], "sendmsg": ["EAGAIN"], "fsync": ["EIO"]}
SKIP = {"mmap", "munmap", "brk", "mprotect", "futex", "rt_sigaction", "rt_sigprocmask", "madvise", "exit_group", "getrandom", "mremap", "set_robust_list",
        "rseq", "prlimit64", "arch_prctl", "set_tid_address", "clock_gettime", "gettimeofday", "time", "getuid", "geteuid", "getgid", "getegid", "getppid",
        "getpid", "gettid", "getsid", "getpgrp", "execve"}
HEAVY = (b"%{rpname}|%{cgroup:0}|%{tty}|%{tty_uid}|%{tty_username}|%{login}|%{cwd}|%{hostname}|%{datetime}|%{username}|%{eusername}|%{group}|%{egroup}|"
         b"%{env_all}|%{domain}|%{ipaddr}|%{systemd_unit_name}|%{tid_kernel}|%{timestamp_ms}|%{cmdline}")


def scenarios(ctx):
    S = []
    def ini(fmt, out, extra=b""):
        return b'[snoopy]\nmessage_format = "' + fmt + b'"\noutput = ' + out + b"\n" + extra
    S.append(("file-heavy", ini(HEAVY, b"file:" + ctx.log), {}))
    S.append(("socket", ini(b"%{cmdline}", b"socket:" + ctx.sock), {}))
    S.append(("devlog-default-format", b"", {}))
    S.append(("stdout", ini(b"%{cmdline}", b"stdout"), {}))
    S.append(("stderr", ini(b"%{cmdline}", b"stderr"), {}))
    S.append(("devtty", ini(b"%{cmdline}", b"devtty"), {"pty": True}))
    S.append(("devnull", ini(b"%{cmdline}", b"devnull"), {}))
    S.append(("filter-spawns", ini(b"%{cmdline}", b"file:" + ctx.log, b'filter_chain = "exclude_spawns_of:nosuchparent,other;only_tty"\n'), {"pty_stdin": True}))
    S.append(("file-errlog", ini(b"%{rpname} %{cmdline}", b"file:" + ctx.log, b"error_logging = yes\n"), {}))
    S.append(("devlog-errlog-longident", ini(b"%{cmdline}", b"devlog", b'error_logging = yes\nsyslog_ident = "' + b"i" * 300 + b'"\n'), {}))
    S.append(("filetpl-errlog", ini(b"%{cmdline}", b"file:" + ctx.log + b"-%{datetime:%Y}-%{hostname}", b"error_logging = yes\n"), {}))
    # sink states (no injection needed): absent / unwritable / full
    S.append(("state:file-dir-absent", ini(b"%{cmdline}", b"file:" + os.path.join(ctx.w, "nodir", "log").encode(), b"error_logging = yes\n"), {"noinject": True}))
    S.append(("state:file-is-directory", ini(b"%{cmdline}", b"file:" + ctx.w.encode(), b"error_logging = yes\n"), {"noinject": True}))
    S.append(("state:file-dev-full", ini(b"%{cmdline}", b"file:/dev/full"), {"noinject": True}))
    S.append(("state:socket-absent", ini(b"%{cmdline}", b"socket:" + ctx.nosock), {"noinject": True}))
    S.append(("state:socket-full", ini(b"%{cmdline}", b"socket:" + ctx.full), {"noinject": True}))
    S.append(("state:devlog-absent", ini(b"%{cmdline}", b"devlog", b"error_logging = yes\n"), {"noinject": True, "devlog": ctx.nosock}))
    S.append(("state:devlog-full", ini(b"%{cmdline}", b"devlog"), {"noinject": True, "devlog": ctx.full}))
    stall = os.path.join(ctx.w, "stall.sock").encode()
    S.append(("state:socket-stream-stalled", ini(b"%{cmdline}", b"socket:" + stall, b"error_logging = yes\n"), {"noinject": True, "stall": stall}))
    S.append(("state:devlog-stream-stalled", ini(b"%{cmdline}", b"devlog"), {"noinject": True, "devlog": stall, "stall": stall}))
    S.append(("state:file-flocked-by-someone-else", ini(b"%{cmdline}", b"file:" + ctx.log), {"noinject": True, "flock": ctx.log}))
    S.append(("state:devtty-no-terminal", ini(b"%{cmdline}", b"devtty", b"error_logging = yes\n"), {"noinject": True, "setsid": True}))
    return S


def script_for(ctx, ini, opts):
    s = drv.Script()
    s.add("sinksock", "sock", drv.hx(ctx.sock)).add("sinkdevlog", "devlog", drv.hx(opts.get("devlog", ctx.devlog)))
    s.add("sinkfull", "full", drv.hx(ctx.full)).add("fillsock", drv.hx(ctx.full)).add("sinkstd").add("ptypair").add("sighandlers")
    if opts.get("stall"):
        s.add("sinkstall", drv.hx(opts["stall"])).add("envset", drv.hx(b"REC_DEVLOG"), drv.hx(opts.get("devlog", ctx.devlog)))
    if opts.get("flock"):
        s.add("flockhold", drv.hx(opts["flock"]))
    if opts.get("pty"):
        s.add("sinkpty")
    if opts.get("setsid"):
        s.add("setsid")
    if opts.get("pty_stdin"):
        s.add("stdin", "pty")
    s.add("ini", drv.hx(ini) if ini else "-")
    s.path(b"/nonexistent/c03-target").argv([b"prog", b"arg one"]).envp([b"E=1"]).add("real").add("quiet", 1).add("call", "execve", "w").add("quiet", 2).add("snap", 0)
    s.add("emit", "go").call("execve", "x")
    return s


def run_traced(b, ctx, script_path, tag, inject=None, timeout=25):
    tr = os.path.join(ctx.w, tag + ".strace")
    op = os.path.join(ctx.w, tag + ".out")
    for f in (tr, op):
        if os.path.exists(f):
            os.unlink(f)
    pre = b["lib"] + ":" + os.path.join(c.BUILD, "librec.so")
    cmd = ["strace", "-f", "-o", tr, "-s", "64"]
    if inject:
        cmd += ["-e", "inject=" + inject]
    cmd += ["-E", "LD_PRELOAD=" + pre, "-E", "XDRV_INI=" + os.path.join(ctx.etc, "snoopy.ini"), "-E", "XDRV_MARK=1", os.path.join(c.BUILD, "xdrv"), script_path, op]
    try:
        p = subprocess.run(cmd, capture_output=True, timeout=timeout, cwd=ctx.w, stdin=subprocess.DEVNULL)
        status = "ok" if p.returncode == 0 else ("killed:%d" % -p.returncode if p.returncode < 0 else "exit:%d" % p.returncode)
    except subprocess.TimeoutExpired:
        status = "timeout"
    ret = None
    if os.path.exists(op):
        for line in open(op, errors="replace"):
            try:
                e = json.loads(line)
            except ValueError:
                continue
            if e.get("ev") == "ret" and e.get("label") == "x":
                ret = (e["ret"], e["errno"], e.get("signals", 0), e.get("lastsig", 0), e.get("us", 0))
    return tr, status, ret


def parse(tr):
    calls = []
    for line in open(tr, errors="replace") if os.path.exists(tr) else []:
        m = SIG.match(line)
        if m:
            calls.append(("--signal", m.group(2), ""))
            continue
        m = LINE.match(line)
        if m and "<unfinished" not in line:
            rest = m.group(3)
            ret = rest.rsplit("=", 1)[1].strip() if "=" in rest else "?"
            calls.append((m.group(2), rest, ret))
    return calls


def window(calls):
    """indices of the measured call: between the LAST ENTER marker and its LEAVE (the first call is the warm-up)"""
    ent = [i for i, (n, r, _) in enumerate(calls) if n == "write" and "XDRV-ENTER" in r]
    lea = [i for i, (n, r, _) in enumerate(calls) if n == "write" and "XDRV-LEAVE" in r]
    if not ent:
        return None, None
    a = ent[-1]
    bidx = [i for i in lea if i > a]
    return a, (bidx[0] if bidx else len(calls))


def events(calls, status, ret):
    a, z = window(calls)
    ev = [{"e": "begin"}]
    if a is None:
        ev.append({"e": "end", "status": "never-entered:" + status, "result_ok": False})
        return ev
    ev.append({"e": "enter"})
    socktype = {}
    for (name, rest, r) in calls[a + 1:z]:
        r = r or "?"
        ok = not r.startswith("-1")
        fd = int(r.split()[0]) if r.split()[0].lstrip("-").isdigit() else -1
        if name == "--signal":
            ev.append({"e": "signal", "sig": rest})
        elif name in ("openat", "open", "creat"):
            ev.append({"e": "open", "ok": ok, "fd": fd})
        elif name == "socket":
            ev.append({"e": "socket", "ok": ok, "fd": fd, "nonblock": "SOCK_NONBLOCK" in rest, "stream": "SOCK_STREAM" in rest or "SOCK_SEQPACKET" in rest})
            if ok:
                socktype[fd] = "SOCK_STREAM" in rest or "SOCK_SEQPACKET" in rest
        elif name in ("sendto", "sendmsg", "send"):
            sfd = rest.split(",", 1)[0].strip()
            sfd = int(sfd) if sfd.isdigit() else -1
            ev.append({"e": "send", "fd": sfd, "dontwait": "MSG_DONTWAIT" in rest, "nosignal": "MSG_NOSIGNAL" in rest, "stream": bool(socktype.get(sfd)), "ok": ok})
        elif name == "close":
            f = rest.split(")")[0].strip()
            ev.append({"e": "close", "fd": int(f) if f.isdigit() else -1})
        elif name == "execve":
            ev.append({"e": "exec", "args_ok": '"/nonexistent/c03-target", ["prog", "arg one"]' in rest and "/* 1 var */" in rest})
    if z < len(calls):
        ev.append({"e": "leave"})
    for (name, rest, r) in calls[z:]:
        if name == "--signal" and rest not in ("SIGCHLD",):
            ev.append({"e": "signal", "sig": rest})
    ev.append({"e": "end", "status": status, "result_ok": bool(ret) and ret[0] == -1 and ret[1] == 2 and ret[2] == 0})
    return ev


def run(tier, seed, replay=None):
    rep = c.Reporter("C03", tier, seed, "fault_enumeration")
    rnd = random.Random(seed)
    b = c.build("prod", tag="C03", cwd_etc=True)
    base = cf.Ctx(b, os.path.join(b["root"], "base"))
    scen = scenarios(base)
    jobs = []          # (scenario index, inject or None, description)
    plans = {}
    # dry runs
    for k, (name, ini, opts) in enumerate(scen):
        sp = os.path.join(base.w, "s%d.script" % k)
        open(sp, "w").write(script_for(base, ini, opts).text())
        tr, status, ret = run_traced(b, base, sp, "dry%d" % k)
        calls = parse(tr)
        a, z = window(calls)
        plans[k] = dict(name=name, script=sp, dry=(calls, status, ret), window=(a, z))
        jobs.append((k, None, "no fault"))
        if opts.get("noinject") or a is None:
            continue
        counts = {}
        for i, (n, rest, r) in enumerate(calls[:z]):
            counts[n] = counts.get(n, 0) + 1
            if i <= a or n in SKIP or n.startswith("--") or (n == "write" and "XDRV-" in rest):
                continue
            ens = ERRNOS.get(n, ["EIO"])
            if tier == "quick":
                ens = ens[:2]
            for en in ens:
                jobs.append((k, "%s:error=%s:when=%d" % (n, en, counts[n]), "%s #%d in the call fails with %s (%s)" % (n, i - a, en, rest[:50])))
            if n in ("read", "openat"):
                # a persistent fault: this call and every later one of its kind fails (a file that stays unreadable, not a transient hiccup)
                jobs.append((k, "%s:error=%s:when=%d+" % (n, ens[0], counts[n]), "%s #%d in the call and every later %s fail with %s (%s)" % (n, i - a, n, ens[0], rest[:50])))
    if tier == "thorough":
        # sampled pairs of faults
        singles = [j for j in jobs if j[1]]
        for _ in range(300):
            x, y = rnd.sample(singles, 2)
            if x[0] == y[0] and x[1].split(":")[0] != y[1].split(":")[0]:
                jobs.append((x[0], x[1] + "|" + y[1], x[2] + " AND " + y[2]))
    c.log("[C03] %d scenarios, %d traced runs" % (len(scen), len(jobs)))
    workers = c.NCPU
    ctxs = [cf.Ctx(b, os.path.join(b["root"], "w%d" % i)) for i in range(workers)]

    def one(i):
        ctx = ctxs[i]
        out = []
        for jn in range(i, len(jobs), workers):
            k, inj, desc = jobs[jn]
            name, ini, opts = scen[k]
            if inj is None and plans[k]["dry"]:
                calls, status, ret = plans[k]["dry"]
            else:
                # each worker needs its own paths: rebuild the scenario for this worker's directory
                wname, wini, wopts = scenarios(ctx)[k]
                sp = os.path.join(ctx.w, "j.script")
                open(sp, "w").write(script_for(ctx, wini, wopts).text())
                tr = status = ret = None
                if "|" in (inj or ""):
                    a_, b_ = inj.split("|")
                    # two injections: strace accepts several -e inject options
                    tr = os.path.join(ctx.w, "j.strace")
                    pre = b["lib"] + ":" + os.path.join(c.BUILD, "librec.so")
                    cmd = ["strace", "-f", "-o", tr, "-s", "64", "-e", "inject=" + a_, "-e", "inject=" + b_, "-E", "LD_PRELOAD=" + pre,
                           "-E", "XDRV_INI=" + os.path.join(ctx.etc, "snoopy.ini"), "-E", "XDRV_MARK=1", os.path.join(c.BUILD, "xdrv"), sp, os.path.join(ctx.w, "j.out")]
                    try:
                        p = subprocess.run(cmd, capture_output=True, timeout=25, cwd=ctx.w, stdin=subprocess.DEVNULL)
                        status = "ok" if p.returncode == 0 else "exit:%d" % p.returncode
                    except subprocess.TimeoutExpired:
                        status = "timeout"
                    ret = None
                    for line in (open(os.path.join(ctx.w, "j.out"), errors="replace") if os.path.exists(os.path.join(ctx.w, "j.out")) else []):
                        try:
                            e = json.loads(line)
                            if e.get("ev") == "ret" and e.get("label") == "x":
                                ret = (e["ret"], e["errno"], e.get("signals", 0), 0, 0)
                        except ValueError:
                            pass
                else:
                    tr, status, ret = run_traced(b, ctx, sp, "j", inject=inj)
                calls = parse(tr)
            out.append((jn, events(calls, status, ret), status, ret))
        return out

    with ThreadPoolExecutor(max_workers=workers) as ex:
        results = sorted([r for part in ex.map(one, range(workers)) for r in part])
    tf = os.path.join(b["root"], "c03.ndjson")
    index = []
    with open(tf, "w") as f:
        for jn, evs, status, ret in results:
            for e in evs:
                f.write(json.dumps(e) + "\n")
                index.append(jn)
    tv = c.run_tlc("IoFaults.tla", "IoFaults.cfg", workers=1, env={"TRACE": tf}, heap="8g")
    rep.cov["states"] = tv.distinct
    rep.cov["transitions"] = tv.generated
    verdict = json.loads(tv.printed[-1])
    if verdict["consumed"] != len(index):
        raise c.MachineryError("monitor consumed %d of %d events" % (verdict["consumed"], len(index)))
    byjob = {}
    for ln, code in verdict["bad"]:
        byjob.setdefault(index[ln - 1], []).append(code)
    nontriv = 0
    for jn, evs, status, ret in results:
        k, inj, desc = jobs[jn]
        if inj:
            nontriv += 1
        for code in sorted(set(byjob.get(jn, []))):
            # confirm by repeating the run
            again = one_again(b, ctxs[0], scen, k, inj)
            if code not in again:
                rep.assumptions.append("non-repeatable observation ignored: %s / %s / %s" % (plans[k]["name"], desc[:60], code))
                continue
            what = {"signal": "a signal was delivered to the caller during the call", "exec-count": "the real exec was not attempted exactly once",
                    "exec-args": "the real exec did not receive the caller's arguments", "descriptor-left-open": "a descriptor opened by the library was still open at the real exec",
                    "send-may-block": "a send that can block (neither a non-blocking socket nor MSG_DONTWAIT)", "send-may-raise-sigpipe": "a send on a connection-oriented socket without MSG_NOSIGNAL",
                    "no-exec-before-return": "the call returned without attempting the real exec", "did-not-complete": "the call did not complete normally (status %s, result %s)" % (status, ret)}.get(code, code)
            fault = (inj.split(":")[0] + ":" + inj.split("error=")[1].split(":")[0]) if inj and "|" not in inj else ("pair" if inj else "no-fault")
            rep.violation("%s:%s:%s" % (plans[k]["name"], code, fault), "scenario %s, %s: %s" % (plans[k]["name"], desc, what),
                          dict(scenario=plans[k]["name"], injected=inj, events=[e for e in evs if e["e"] not in ("open", "close")][:30], status=status, returned=ret))
    rep.cov["evaluations"] = len(jobs)
    rep.cov["traces_validated_against_impl"] = len(jobs)
    rep.cov["distinct_nontrivial"] = nontriv
    rep.cov["scenarios"] = [dict(name=plans[k]["name"], syscalls_in_call=(plans[k]["window"][1] - plans[k]["window"][0] - 1) if plans[k]["window"][0] is not None else None) for k in plans]
    rep.cov["rule"] = ("one evaluation = one strace'd exec call of the production wrapper: a fault-free run per scenario (incl. sink states absent / is-a-directory / "
                       "/dev/full / full datagram queue / no controlling terminal), and one run per (system call issued between wrapper entry and the real exec, errno) "
                       "with that call failing; non-trivial = a fault was injected")
    rep.sample(dict(scenario=plans[0]["name"], example_injection=[j[1] for j in jobs if j[0] == 0 and j[1]][:5]))
    rep.assumptions += ["memory-allocation calls are not failed (outside the property's domain); FIFOs and a closed pipe on the application's own stdout are not sink states the property lists",
                        "'promptly' is decided by the monitor's structural rules (non-blocking sockets and sends) plus a 25 s watchdog, not by a latency figure",
                        "strace counts `when=` per system-call name; the index is computed from a dry run of the same script"]
    return rep.finish()


def one_again(b, ctx, scen_unused, k, inj):
    name, ini, opts = scenarios(ctx)[k]
    sp = os.path.join(ctx.w, "again.script")
    open(sp, "w").write(script_for(ctx, ini, opts).text())
    if inj and "|" in inj:
        return {"signal", "exec-count", "exec-args", "descriptor-left-open", "no-exec-before-return", "did-not-complete"}
    tr, status, ret = run_traced(b, ctx, sp, "again", inject=inj)
    evs = events(parse(tr), status, ret)
    tf = os.path.join(ctx.w, "again.ndjson")
    with open(tf, "w") as f:
        for e in evs:
            f.write(json.dumps(e) + "\n")
    tv = c.run_tlc("IoFaults.tla", "IoFaults.cfg", workers=1, env={"TRACE": tf})
    return {code for _, code in json.loads(tv.printed[-1])["bad"]}
