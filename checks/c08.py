"""C08: configuration file parsed to the documented values with safe fallbacks (spec/ConfigFile*.tla).
TLC enumerates files (header + <= 2..3 lines over a 91-line alphabet carrying source text and documented meaning) and
computes, per option, the set of settings the contract allows; each file is written out and read back through the
library's own option-value API (`snoopyctl conf` against the libsnoopy.so of the scratch build); then conf's output is
written back as the configuration and must reproduce itself (round trip)."""
import json, os, random, subprocess
from concurrent.futures import ThreadPoolExecutor
from vlib import common as c


def parse_conf(out):
    vals = {}
    for line in out.decode("latin-1").splitlines():
        if line.startswith(";") or line.startswith("[") or " = " not in line and not line.endswith(" ="):
            continue
        name, _, v = line.partition(" = ")
        if len(v) >= 2 and v[0] == '"' and v[-1] == '"':
            v = v[1:-1]
        vals[name.strip()] = v
    return vals


def run(tier, seed, replay=None):
    rep = c.Reporter("C08", tier, seed, "model_checking")
    rnd = random.Random(seed)
    b = c.build("prod", tag="C08", cwd_etc=True)
    rep.tlc(c.run_tlc("ConfigFileMC.tla", "ConfigFileMC.cfg"))
    if tier == "thorough":
        rep.tlc(c.run_tlc("ConfigFileMC.tla", "ConfigFileMC3.cfg", heap="16g"))
    cases = []
    for cfg, cap in (("ConfigFileGen1.cfg", None), ("ConfigFileGen2.cfg", 6000 if tier == "quick" else None), ("ConfigFileGen3.cfg", 1500 if tier == "quick" else None),
                     ("ConfigFileGenSec.cfg", None)):
        g = c.run_tlc("ConfigFileMC.tla", cfg, heap="16g")
        rep.tlc(g)
        hs = [json.loads(x) for x in g.printed]
        if cap and len(hs) > cap:
            rnd.shuffle(hs)
            hs = hs[:cap]
        cases += hs
    c.log("[C08] replaying %d files" % len(cases))
    workers = c.NCPU
    wdirs = []
    for i in range(workers):
        d = os.path.join(b["root"], "w%d" % i)
        os.makedirs(os.path.join(d, "etc"))
        wdirs.append(d)
    env = {"PATH": "/usr/bin:/bin", "SNOOPY_TEST_LIBSNOOPY_SO_PATH": b["lib"]}

    def conf(d):
        p = subprocess.run([b["snoopyctl"], "conf"], env=env, cwd=d, capture_output=True, timeout=30)
        return p.returncode, p.stdout

    def one(i):
        d = wdirs[i]
        ini = os.path.join(d, "etc", "snoopy.ini")
        res = []
        for k in range(i, len(cases), workers):
            h = cases[k]
            text = "\n".join(h["file"]).encode("latin-1")
            variant = k % 4
            if variant == 1:
                text = b"\xef\xbb\xbf" + text                      # BOM
            if variant != 2:
                text += b"\n"                                       # variant 2: no final newline
            if variant == 3:
                text = text.replace(b"\n", b"\r\n")                 # CR-LF endings (rstrip removes the CR)
            open(ini, "wb").write(text)
            rc, out = conf(d)
            vals = parse_conf(out)
            # round trip: conf's own output as the configuration
            open(ini, "wb").write(out)
            rc2, out2 = conf(d)
            res.append((k, rc, vals, out == out2, out, out2, text))
        return res

    with ThreadPoolExecutor(max_workers=workers) as ex:
        results = [r for part in ex.map(one, range(workers)) for r in part]
    nontriv = 0
    for k, rc, vals, same, out, out2, text in results:
        h = cases[k]
        if sum(1 for l in h["file"] if " = " in l or "=" in l or ":" in l) >= 2:
            nontriv += 1
        probs = []
        if rc != 0 or not vals:
            probs.append(("conf-failed", "snoopyctl conf exited %d with output %r" % (rc, out[:100])))
        for o, allowed in h["allowed"].items():
            got = vals.get(o)
            if got is not None and got not in allowed:
                probs.append(("value:" + o, "option %s reads as %r, documented: %s" % (o, got, " or ".join(repr(a) for a in allowed))))
            if got is not None and len(probs) == 0 and got != h["impl"][o] and len(rep.drift) < 10:
                rep.drift.append("option %s: parser model says %r, code says %r (both allowed) for %r" % (o, h["impl"][o], got, h["file"]))
        if not same and rc == 0:
            v2 = parse_conf(out2)
            diff = [o for o in vals if vals.get(o) != v2.get(o)]
            probs.append(("roundtrip:" + ",".join(diff), "conf output written back as snoopy.ini reads differently for %s: %r -> %r" % (diff, {o: vals[o] for o in diff}, {o: v2.get(o) for o in diff})))
        for sig, what in probs:
            rep.violation(sig, "file %r: %s" % (h["file"], what), dict(file_lines=h["file"], file_bytes=repr(text), allowed=h["allowed"], conf_output=out.decode("latin-1")))
    rep.cov["traces_validated_against_impl"] = len(results)
    rep.cov["evaluations"] = len(results) * 2
    rep.cov["distinct_nontrivial"] = nontriv
    rep.cov["rule"] = ("case = header (none / [snoopy] / [other] / [Snoopy] / padded+comment) + <= %d lines over ConfigFileMC!AllLines (every option with "
                       "well-formed and garbage values, quotes, inline comments, '='/':' separators, continuation lines, comments, unknown options, "
                       "syntax errors), written with BOM / CR-LF / missing final newline variants; non-trivial = >= 2 option-like lines" % (3 if tier == "thorough" else 2))
    for h in cases[2000:2003]:
        rep.sample(dict(file=h["file"], allowed=h["allowed"]))
    rep.assumptions += ["option values are read through `snoopyctl conf` (the library's exported option-value API), built from the working tree",
                        "digit-prefixed garbage such as '12abc' is not generated (the documentation does not say how it reads)",
                        "numbers up to 10^15 and suffix overflow cases are literal tokens of the alphabet"]
    return rep.finish()
