"""Replay of filter decisions (C07, C14, C15 share this): one forked child per case switches ids / stdin, then calls
through the production wrapper with the chain in snoopy.ini; observed = record present at the file sink or not,
silence of every other sink, and the real exec having happened exactly once."""
import json, os, subprocess
from concurrent.futures import ThreadPoolExecutor
from vlib import common as c, drv
from checks import callflow as cf


def open_tree(path, stop):
    """make every directory from `stop` down to `path` searchable by other users"""
    p = path
    while True:
        try:
            os.chmod(p, 0o755)
        except OSError:
            pass
        if p == stop or p == "/":
            break
        p = os.path.dirname(p)


# %{noop} expands to nothing; the name exists in all three registries (filter, data source, output), which is what it is here for
def run_cases(b, cases, workdir, fmt=b"%{uid}/%{euid}:%{noop}%{cmdline}", overflow=False):
    """cases: list of (label, chain bytes, ruid, euid, tty bool). -> {label: dict(logged=bool, other_output=..., n_real=int, crashed=...)}"""
    workers = c.NCPU
    batches = [cases[i::workers] for i in range(workers)]
    batches = [x for x in batches if x]
    ctxs = [cf.Ctx(b, os.path.join(workdir, "w%d" % i)) for i in range(len(batches))]

    def one(i):
        ctx = ctxs[i]
        open_tree(ctx.w, b["root"])
        os.chmod(ctx.w, 0o777)
        os.chmod(ctx.etc, 0o755)
        with open(ctx.log, "wb"):
            pass
        os.chmod(ctx.log, 0o666)
        s = drv.Script().add("childtimeout", 10)
        s.add("sinkfile", "file", drv.hx(ctx.log)).add("sinkstd").add("sinkdevlog", "devlog", drv.hx(ctx.devlog)).add("ptypair")
        s.path(ctx.helper).argv([b"prog", b"x" * 300] if overflow else [b"prog", b"x"]).envp([b"A=1"]).add("ret", -1, 2).add("snap", 0)
        want = {}
        for label, chain, ruid, euid, tty in batches[i]:
            h0 = sum(label.encode())
            if not (overflow and h0 % 4 == 1):
                want[label] = b"%d/%d:prog %s\n" % (ruid if ruid is not None else 0, euid if ruid is not None else 0, b"x" * 300 if overflow else b"x")
            ini = b'[snoopy]\nmessage_format = "' + fmt + b'"\noutput = file:' + ctx.log + b'\nfilter_chain = "' + chain + b'"\n'
            if sum(label.encode()) % 2:
                ini += b"error_logging = yes\n"        # a dropped call stays silent with error logging on, too
            h = sum(label.encode())
            if overflow and h % 4 == 1:            # the message does not fit: formatting it raises an error, which must stay silent for a dropped call too
                ini += b"log_message_max_length = 255\n"
            s.add("emit", "item:" + label).add("fork")
            s.add("stdin", "pty" if tty else "null")
            # an earlier call of the same process, decided the other way or the same way, must not influence this one:
            # first a call under a chain that drops everybody (or, every other case, under no chain at all)
            pre = b'[snoopy]\nmessage_format = "earlier call"\noutput = file:' + ctx.log + (b'\nfilter_chain = "only_uid:4294967294"\n' if h % 2 == 0 else b"\n")
            s.add("ini", drv.hx(pre)).add("quiet", 1).call("execve", "earlier").add("quiet", 0).add("drain", "earlier:" + label)
            s.add("ini", drv.hx(ini))
            if ruid is not None:
                s.add("gids", 4243, 4243, 4243).add("ids", ruid, euid, ruid)
            s.call("execve", label).add("endfork").add("drain", "post:" + label)
        sp, op = os.path.join(ctx.w, "script"), os.path.join(ctx.w, "out")
        open(sp, "w").write(s.text())
        if os.path.exists(op):
            os.unlink(op)
        env = dict({"PATH": "/usr/bin:/bin", "LD_PRELOAD": cf.preload(b), "XDRV_INI": os.path.join(ctx.etc, "snoopy.ini")}, **cf.SAN_ENV)
        subprocess.run([os.path.join(c.BUILD, "xdrv"), sp, op], env=env, capture_output=True, timeout=1500, cwd=ctx.w, stdin=subprocess.DEVNULL)
        res, cur = {}, None
        for line in (open(op, errors="replace") if os.path.exists(op) else []):
            try:
                e = json.loads(line)
            except ValueError:
                continue
            ev = e["ev"]
            if ev == "mark" and e["label"].startswith("item:"):
                cur = e["label"][5:]
                res[cur] = dict(logged=False, other=[], n_real=0, record=b"", errors=[], want=want.get(cur))
            elif cur is None:
                continue
            elif ev == "error":
                res[cur]["errors"].append(e["what"])
            elif ev in ("at", "ret") and e.get("label") == cur:
                if ev == "at":
                    res[cur]["n_real"] += 1
                else:
                    res[cur]["returned"] = (e["ret"], e["errno"])
                for sn, data in e["sinks"].items():
                    recs = cf.frame_records(sn, data)
                    if sn == "file" and recs:
                        res[cur]["logged"] = True
                        res[cur]["record"] += b"".join(recs)
                        if ev != "at":
                            res[cur]["other"].append(("file-late", recs[0][:60]))
                    elif recs:
                        res[cur]["other"].append((sn, recs[0][:60]))
            elif ev == "child":
                res[cur]["signal"] = e.get("signal")
                res[cur]["timedout"] = e.get("timedout")
            elif ev == "drain" and e.get("label") == "post:" + cur:
                for sn, data in e["sinks"].items():
                    recs = cf.frame_records(sn, data)
                    if recs:
                        res[cur]["other"].append((sn + "-late", recs[0][:60]))
        return res

    with ThreadPoolExecutor(max_workers=len(batches)) as ex:
        outs = list(ex.map(one, range(len(batches))))
    obs = {}
    for o in outs:
        obs.update(o)
    return obs


def judge(o, expect_pass):
    """-> problem string or None"""
    if o is None:
        return "no observation"
    if o.get("timedout"):
        return "the call did not return (the process was still inside it when the harness watchdog killed it)"
    if o.get("signal"):
        return "the calling process died with signal %s" % o["signal"]
    if o["errors"]:
        return None if False else "HARNESS:" + ";".join(o["errors"])
    if o["n_real"] != 1:
        return "the real exec was entered %d times" % o["n_real"]
    if o.get("returned") != (-1, 2):
        return "the exec result was not passed through: %r" % (o.get("returned"),)
    if o["other"]:
        return "output outside the configured file: %r" % (o["other"][:2],)
    if o["logged"] != expect_pass:
        return "the call was %s but the chain decides %s" % ("logged" if o["logged"] else "not logged", "pass" if expect_pass else "drop")
    if o["logged"] and o.get("want") is not None and o["record"] != o["want"]:
        return "the record is %r, the format expands to %r" % (o["record"][:80], o["want"][:80])
    return None
