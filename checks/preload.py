"""C18 / C19: snoopyctl enable / disable / status against spec/Preload*.tla.

Pipeline: TLC model-checks the spec (Impl => Contract, idempotence, round trip, crash safety) and its
expected-violation configs (vacuity guards); TLC generates command histories (GenSpec, history variable);
the real snoopyctl built from the working tree executes every history on concretised files; the observed
steps are abstracted back to atoms and validated by TLC against the CONTRACT (PreloadTrace).
Only contract rejections are violations; disagreement with the implementation-shaped layer is drift.
"""
import json, os, random, subprocess, sys
from concurrent.futures import ThreadPoolExecutor
from vlib import common as c

ATOM_ORDER = ["SFX", "PFX", "OWN", "FSN", "FOR2", "FOR", "MEN", "TXT", "HASH", "SP", "TAB", "CR"]


class Concrete:
    def __init__(self, build):
        self.b = build
        d = os.path.join(build["root"], "L")
        os.makedirs(d, exist_ok=True)
        self.own = os.path.join(d, "libsnoopy.so")
        if not os.path.exists(self.own):
            os.symlink(build["lib"], self.own)
        o = self.own.encode()
        # FOR is a relative entry that starts with a non-ASCII byte (UTF-8); it is the atom that shares lines with the own entry in PreloadMC!Lines
        self.atoms = {"OWN": o, "SP": b" ", "TAB": b"\t", "HASH": b"#", "FOR": b"\xc3\xa9toile/lib\xc3\xa9.so",
                      "FOR2": b"/opt/bar/libbar.so.2", "FSN": b"/opt/other/lib/libsnoopy.so", "PFX": o + b".1",
                      "SFX": b"/x" + o, "TXT": b"note", "MEN": b"libsnoopy.so", "CR": b"\r"}

    def to_bytes(self, f):
        if not f["present"]:
            return None
        out = b""
        n = len(f["lines"])
        for i, l in enumerate(f["lines"]):
            out += b"".join(self.atoms[a] for a in l)
            if i < n - 1 or f["nl"]:
                out += b"\n"
        return out

    def to_abstract(self, data):
        if data is None:
            return {"present": False, "lines": [], "nl": False}
        lines = data.split(b"\n")
        nl = data.endswith(b"\n")
        if nl:
            lines = lines[:-1]
        elif lines == [b""]:
            lines = []
        res = []
        for l in lines:
            toks, i = [], 0
            while i < len(l):
                for a in ATOM_ORDER:
                    v = self.atoms[a]
                    if l.startswith(v, i):
                        toks.append(a)
                        i += len(v)
                        break
                else:
                    toks.append("?%02x" % l[i])
                    i += 1
            res.append(toks)
        return {"present": True, "lines": res, "nl": bool(nl and res)}

    def run(self, path, action, timeout=20):
        env = {"SNOOPY_TEST_LD_SO_PRELOAD_PATH": path, "SNOOPY_TEST_LIBSNOOPY_SO_PATH": self.own, "PATH": "/usr/bin:/bin"}
        try:
            p = subprocess.run([self.b["snoopyctl"], action], env=env, capture_output=True, timeout=timeout)
        except subprocess.TimeoutExpired:
            return 999, b"", b"timeout"
        return p.returncode, p.stdout, p.stderr


def status_class(rc, out):
    s = out.decode(errors="replace")
    for line in s.splitlines():
        if line.startswith("/etc/ld.so.preload:"):
            if "OK - Snoopy is enabled" in line and "NOT OK" not in line:
                return "present"
            if "Snoopy is not enabled" in line:
                return "absent"
            return "other"
    return "fatal" if rc != 0 else "unknown"


def read_file(p):
    try:
        with open(p, "rb") as f:
            return f.read()
    except FileNotFoundError:
        return None


def execute(conc, workdir, idx, beh):
    """beh: hist from the spec: [init, step...]. Returns list of trace records + drift notes."""
    path = os.path.join(workdir, "p%d" % idx)
    init = beh[0]["disk"]
    data = conc.to_bytes(init)
    if os.path.exists(path):
        os.unlink(path)
    if data is not None:
        with open(path, "wb") as f:
            f.write(data)
    stale = path + ".tmp"
    if os.path.exists(stale):
        os.unlink(stale)
    if beh[0].get("out") == "stale-tmp":          # Preload!StaleTmp: a temporary left by an earlier killed run, longer than anything written now
        with open(stale, "wb") as f:
            f.write(conc.to_bytes({"present": True, "nl": True, "lines": [["FOR2"], ["HASH", "TXT"], ["FOR2"], ["FOR2"], ["FOR2"]]}))
    recs = [{"k": "init", "disk": init}]
    drift = []
    raw = [data]
    for st in beh[1:]:
        rc, out, err = conc.run(path, st["c"])
        after = read_file(path)
        raw.append(after)
        ab = conc.to_abstract(after)
        if st["c"] == "status":
            oc = status_class(rc, out)
            recs.append({"k": "status", "out": oc})
            if oc != st["out"]:
                drift.append("status: impl-spec says %s, code says %s" % (st["out"], oc))
        else:
            recs.append({"k": st["c"], "new": ab, "exit": rc})
            if ab != st["disk"] or (rc != st["exit"]):
                drift.append("%s: impl-spec %s/%d, code %s/%d" % (st["c"], st["disk"], st["exit"], ab, rc))
    for leftover in (path, stale):
        try:
            if os.path.exists(leftover):
                os.unlink(leftover)
        except OSError:
            pass
    return recs, drift, raw


def signature(conc, rec, before):
    """Structural signature of a rejected step: command + class of the file it ran on."""
    o = before
    own_lines = [l for l in o["lines"] if l[:1] == ["OWN"] and (len(l) == 1 or l[1] in ("HASH", "SP", "TAB"))]
    shared = any(any(a in ("FOR", "FOR2", "FSN", "PFX", "SFX") for a in l[1:(l.index("HASH") if "HASH" in l else len(l))])
                 for l in own_lines)
    comment_multi = any(l[:1] == ["HASH"] and sum(1 for a in l if a in ("OWN", "MEN", "FSN", "PFX", "SFX")) >= 2
                        for l in o["lines"])
    cls = []
    if shared:
        cls.append("entry-shares-line")
    if comment_multi:
        cls.append("comment-mentions-twice")
    if not cls:
        cls.append("plain")
    return "%s:%s" % (rec["k"], "+".join(cls))


def run_pipeline(prop, tier, seed):
    rep = c.Reporter(prop, tier, seed, "model_checking")
    rnd = random.Random(seed)
    b = c.build("prod", tag=prop)
    conc = Concrete(b)

    # 1. model checking (+ vacuity guards)
    rep.tlc(c.run_tlc("PreloadMC.tla", "PreloadMC.cfg"))
    if tier == "thorough":
        rep.tlc(c.run_tlc("PreloadMC.tla", "PreloadMC3.cfg", heap="24g"))
    guards = {}
    for d in ("C18", "C19", "C20"):
        r = c.run_tlc("PreloadMC.tla", "PreloadDefect%s.cfg" % d, expect_violation=True)
        guards[d] = r.violated
    rep.cov["vacuity_guards"] = guards

    # 2. behaviours from the spec
    gens = [("PreloadGen.cfg", None), ("PreloadGen3.cfg", None)]
    if tier == "thorough":
        gens.append(("PreloadGen4s.cfg", None))
    behs = []
    for cfg, _ in gens:
        r = c.run_tlc("PreloadMC.tla", cfg, heap="24g")
        rep.tlc(r)
        behs += [json.loads(x) for x in r.printed]
    if tier == "quick" and len(behs) > 9000:
        # keep every single-line and empty/absent file, sample the two- and three-line ones (three-line files with the own entry
        # in the middle -- something above and below it -- first)
        small = [x for x in behs if len(x[0]["disk"]["lines"]) <= 1]
        two = [x for x in behs if len(x[0]["disk"]["lines"]) == 2]
        three = [x for x in behs if len(x[0]["disk"]["lines"]) == 3]
        mid = [x for x in three if x[0]["disk"]["lines"][1][:1] == ["OWN"]]
        oth = [x for x in three if x[0]["disk"]["lines"][1][:1] != ["OWN"]]
        for l_ in (two, mid, oth):
            rnd.shuffle(l_)
        behs = small + two[:5000] + mid[:3500] + oth[:1500]
    c.log("[%s] %d behaviours to replay" % (prop, len(behs)))

    # 3. replay on the real snoopyctl
    work = os.path.join(b["root"], "work")
    os.makedirs(work, exist_ok=True)
    def job(i):
        return execute(conc, work, i, behs[i])
    with ThreadPoolExecutor(max_workers=c.NCPU) as ex:
        results = list(ex.map(job, range(len(behs))))

    # 4. validate the observed steps against the contract with TLC
    trace = os.path.join(b["root"], "trace.ndjson")
    index = []      # trace line -> (behaviour, step)
    with open(trace, "w") as f:
        for bi, (recs, drift, raw) in enumerate(results):
            for si, r in enumerate(recs):
                f.write(json.dumps(r) + "\n")
                index.append((bi, si))
            for dmsg in drift[:1]:
                if len(rep.drift) < 20:
                    rep.drift.append(dmsg)
    r = c.run_tlc("PreloadTrace.tla", "PreloadTrace.cfg", workers=1, env={"TRACE": trace}, heap="16g")
    rep.cov["states"] += r.distinct
    rep.cov["transitions"] += r.generated
    if not r.printed:
        raise c.MachineryError("trace validation produced no report")
    verdict = json.loads(r.printed[-1])
    if verdict["consumed"] != len(index):
        raise c.MachineryError("trace validation consumed %d of %d lines" % (verdict["consumed"], len(index)))
    mine = {"C18": ("enable", "status"), "C19": ("disable",)}[prop]
    nontrivial = set()
    for bi, (recs, drift, raw) in enumerate(results):
        key = json.dumps(behs[bi][0]["disk"]) + "|" + behs[bi][0].get("out", "") + "|" + ",".join(s["c"] for s in behs[bi][1:])
        if any(s["c"] in mine for s in behs[bi][1:]) and behs[bi][0]["disk"]["lines"]:
            nontrivial.add(key)
    rep.cov["traces_validated_against_impl"] = len(behs)
    rep.cov["evaluations"] = len(index)
    rep.cov["distinct_nontrivial"] = len(nontrivial)
    rep.cov["rule"] = ("behaviour = initial file (<= MaxLines lines over the 21-line alphabet of PreloadMC!Lines, or absent) + "
                       "command history of MaxSteps commands generated by TLC from GenSpec; non-trivial = non-empty initial file "
                       "and at least one command of this property; distinct = distinct (file, history)")
    for x in behs[:: max(1, len(behs) // 4)][:4]:
        rep.sample({"init": x[0]["disk"], "commands": [s["c"] for s in x[1:]]})
    for ln in sorted(verdict["bad"]):
        bi, si = index[ln - 1]
        recs, drift, raw = results[bi]
        rec = recs[si]
        if rec["k"] not in mine:
            continue
        # state before this step
        before = recs[0]["disk"]
        for q in recs[1:si]:
            if q["k"] != "status":
                before = q["new"]
        # confirm by re-running the same behaviour in fresh processes
        recs2, _, raw2 = execute(conc, work, 10**6 + bi, behs[bi])
        if recs2[si] != rec:
            rep.assumptions.append("non-repeatable rejection ignored: behaviour %d step %d" % (bi, si))
            continue
        sig = signature(conc, rec, before)
        what = "%s on %r gives %r" % (rec["k"], before, {k: v for k, v in rec.items() if k != "k"})
        rep.violation(sig, what, dict(behaviour=behs[bi], observed=recs, own_path="<scratch>/L/libsnoopy.so",
                                      file_before=repr(raw[si - 1]), file_after=repr(raw[si])))
    rep.assumptions += ["atoms are concretised by harness/preload.py:Concrete (own path = symlink to the built libsnoopy.so)",
                        "snoopyctl honours SNOOPY_TEST_LD_SO_PRELOAD_PATH / SNOOPY_TEST_LIBSNOOPY_SO_PATH (existing test seam)"]
    return rep.finish()
