from checks import preload
def run(tier, seed, replay=None):
    return preload.run_pipeline("C18", tier, seed)
