"""Shared replay machinery for the call-pipeline properties (C01, C04, C06, C11, C16; also used by C07/C14):
concretisation of SnoopyCall behaviours, batched execution through harness/xdrv against the production
library, and comparison of the observations with the expectation the SPECIFICATION computed."""
import json, os, re, subprocess, errno as _errno
from concurrent.futures import ThreadPoolExecutor
from vlib import common as c, drv

class _Errno(dict):
    def __missing__(self, k):
        if k.startswith("E") and k[1:].isdigit():
            return int(k[1:])
        raise KeyError(k)


ERRNO = _Errno({"ENOENT": 2, "EACCES": 13, "E2BIG": 7, "ENOEXEC": 8, "ENOMEM": 12, "ETXTBSY": 26})
DSMAX = {"default": 2047, "min": 255, "max": 1048575, "big": 65535}
LOGMAX = {"default": 16383, "min": 255, "max": 1048575, "big": 131071}
FMT = {"static": b"static text", "cmdfile": b"%{filename}|%{cmdline}|end", "cmd": b"%{cmdline}", "empty": b"",
       "unknown": b"a%{nosuch}b", "tid": b"t=%{tid} n=%{snoopy_threads}",
       "heavy": (b"%{cgroup:0}|%{cgroup:name=systemd}|%{cgroup:nosuch}|%{systemd_unit_name}|%{rpname}|%{tty}|%{tty_username}|%{login}|%{username}|%{egroup}|%{cwd}|"
                 b"%{hostname}|%{datetime}|%{env_all}|%{ipaddr}|%{domain}|%{cmdline}")}
CHAIN = {"pass": b"only_uid:0", "drop": b"exclude_uid:0", "bogus": b"nosuchfilter:1", "pass;pass": b"only_uid:0;only_root",
         "bogus;pass": b"nosuchfilter;only_root", "empty-elems": b";;only_root;", "pass;drop": b"only_root;exclude_uid:0",
         "drop;pass": b"exclude_uid:0;only_root", "drop;bogus": b"exclude_uid:0;nosuch"}
IDENT = {"static": (b"my ident", b"my ident"), "tpl": (b"id-%{snoopy_literal:X}", b"id-X"), "default": (None, b"snoopy"),
         "long255": (b"i" * 250 + b"dent5", b"i" * 250 + b"dent5")}


def preload(build):
    """LD_PRELOAD for the production library + recorder; sanitizer builds need the sanitizer runtime first and a recorder
    that leaves the allocator alone"""
    if build["variant"].startswith("asan"):
        asan = subprocess.run(["gcc", "-print-file-name=libasan.so"], capture_output=True, text=True).stdout.strip()
        return ":".join([asan, build["lib"], os.path.join(c.BUILD, "librec-noalloc.so")])
    return ":".join([build["lib"], os.path.join(c.BUILD, "librec.so")])


SAN_ENV = {"ASAN_OPTIONS": "detect_leaks=0:abort_on_error=1:handle_segv=0:allocator_may_return_null=1", "UBSAN_OPTIONS": "halt_on_error=1:abort_on_error=1:print_stacktrace=1"}


class Ctx:
    """Paths of one worker (one xdrv process, one private etc directory)."""

    def __init__(self, build, wdir):
        self.b, self.w = build, wdir
        os.makedirs(wdir, exist_ok=True)
        self.etc = os.path.join(wdir, "etc")
        os.makedirs(self.etc, exist_ok=True)
        self.log = os.path.join(wdir, "log").encode()
        self.tpl = os.path.join(wdir, "t-%{snoopy_literal:x}.log").encode()
        self.tpl_real = os.path.join(wdir, "t-x.log").encode()
        self.fifo = os.path.join(wdir, "log.fifo").encode()
        self.sock = os.path.join(wdir, "s.sock").encode()
        real = os.path.realpath(wdir)
        pad = 107 - len(real) - 1
        self.sock107 = (real + "/" + "S" * pad).encode() if pad >= 1 else None       # longest path sockaddr_un can hold
        self.full = os.path.join(wdir, "full.sock").encode()
        self.nosock = os.path.join(wdir, "absent.sock").encode()
        self.devlog = os.path.join(wdir, "d.sock").encode()
        self.helper_out = os.path.join(wdir, "helper.out")
        self.helper = os.path.join(c.BUILD, "xhelper").encode()
        self.link8 = os.path.join(wdir, "h\xe9lp\xffr \x01x").encode("latin-1")
        if not os.path.lexists(self.link8):
            os.symlink(self.helper, self.link8)


def ini_for(f, ctx):
    """config record of the spec -> bytes of snoopy.ini (None = no file)."""
    if f["state"] == "absent":
        return None
    if f["state"] == "garbage":
        return b"\x00\x01garbage without any section\nmessage_format = ignored because outside [snoopy]\n[other]\noutput = stdout\n"
    if f["state"] == "unreadable":
        return "DIR"
    L = [b"; generated", b"[snoopy]"]
    dup = f.get("dup")
    if f["fmt"] != "default":
        if dup:
            L.append(b'message_format = "OLD %{cmdline}"')
        L.append(b'message_format = "' + FMT[f["fmt"]] + b'"')
    if f["chain"] != "none":
        if dup:
            L.append(b"filter_chain = exclude_uid:0")
        L.append(b'filter_chain = "' + CHAIN[f["chain"]] + b'"')
    st = f.get("sinkst", "ok")
    sockp = {"ok": ctx.sock, "absent": ctx.nosock, "full": ctx.full}[st]
    filep = ctx.log if st == "ok" else os.path.join(ctx.w, "nodir", "log").encode()
    out = {"file": b"file:" + filep, "socket": b"socket:" + sockp, "socket107": b"socket:" + (ctx.sock107 or ctx.sock),
           "filebad": b"file:/proc/nonexistent-dir/snoopy.log", "filetpl": b"file:" + ctx.tpl, "filefifo": b"file:" + ctx.fifo, "devlog": b"devlog",
           "stdout": b"stdout", "stderr": b"stderr", "devtty": b"devtty", "devnull": b"devnull", "noop": b"noop",
           "filenoarg": b"file", "unknown": b"bogusoutput:arg"}.get(f["out"])
    if out is not None:
        if dup:
            L.append(b"output = file:" + ctx.log + b".old")
        L.append(b"output = " + out)
    if f["errlog"] != "default":
        L.append(b"error_logging = " + f["errlog"].encode())
    if f["dsmax"] != "default":
        L.append(b"datasource_message_max_length = %d" % DSMAX[f["dsmax"]])
    if f["logmax"] != "default":
        L.append(b"log_message_max_length = %d" % LOGMAX[f["logmax"]])
    if f["fac"] != "default":
        L.append(b"syslog_facility = LOG_" + f["fac"].upper().encode())
    if f["lvl"] != "default":
        L.append(b"syslog_level = " + f["lvl"].encode())
    if f["ident"] != "default":
        if dup:
            L.append(b"syslog_ident = older")
        L.append(b'syslog_ident = "' + IDENT[f["ident"]][0] + b'"')
    if f.get("synerr"):
        L.insert(3, b"this line is a syntax error because it has no separator")
        L.append(b"another broken line")
    return b"\n".join(L) + b"\n"


_BIG = {}


def _big(n):
    if n not in _BIG:
        _BIG[n] = (bytes(range(97, 120)) * (n // 23 + 1))[:n]
    return _BIG[n]


_MANY = [b"arg%d" % i for i in range(5000)]
_EMANY = [b"V%d=%d" % (i, i) for i in range(300)] + [b"NOEQUALS", b"E==x"]


def call_for(call, ctx, real):
    """call record of the spec -> (kind, path, argv, envp) concrete; `real`: the image will really be replaced."""
    p = {"p_norm": ctx.helper, "p_empty": b"", "p_long": b"/" + b"./" * 1900 + ctx.helper.lstrip(b"/"),
         # p_vlong is longer than PATH_MAX: the exec cannot succeed, the record still carries the path
         "p_vlong": b"/" + b"./" * 3000 + ctx.helper.lstrip(b"/"), "p_8bit": ctx.link8}[call["path"]]
    big = 100000 if real else (1 << 20)
    argv = {"a_null": None, "a_empty": [], "a_emptystr": [b""], "a_one": [b"prog"], "a_two": [b"a b", b"\x01\xff x", b""],
            "a_huge": [b"prog", _big(big)], "a_many": _MANY, "a_100k": [b"prog", _big(100000)], "a_bytes": [bytes(range(1, 128)), bytes(range(128, 256)) + b" end"],
            "a_4095": [_big(4095)], "a_4096": [_big(4096)], "a_4097": [_big(4097)],
            # a_2g: "prog" + 2200 pointers to one 1 MiB string (2.2 GiB of argument text, realised by xdrv's sharedargv); the first 2 MiB decide every expectation
            "a_2g": [b"prog", _big(1 << 20), _big(1 << 20)]}[call["argv"]]
    envp = {"e_null": None, "e_empty": [], "e_one": [b"A=1"], "e_many": _EMANY,
            "e_none": None}[call["envp"]]
    return call["kind"], p, argv, envp


def set_argv(s, call, argv):
    """argument vector of the next call; the big shapes are generated inside the driver ("prog" + k pointers to one patterned string) instead of
    travelling through the script as megabytes of hex"""
    shape = call["argv"]
    if shape in ("a_huge", "a_100k", "a_2g") and argv is not None and len(argv) >= 2 and argv[0] == b"prog":
        s.add("sharedargv", 2200 if shape == "a_2g" else 1, len(argv[1]))
    elif shape == "a_many" and argv is _MANY:
        s.add("manyargv", len(_MANY))
    else:
        s.argv(argv)


def set_path(s, call, p, ctx):
    """path of the next call; the long ones ("/" + "./" * n + helper) are built inside the driver"""
    n = {"p_long": 1900, "p_vlong": 3000}.get(call["path"])
    if n and p == b"/" + b"./" * n + ctx.helper.lstrip(b"/"):
        s.add("dotpath", n, drv.hx(ctx.helper.lstrip(b"/")))
    else:
        s.path(p)


def piece_bytes(piece, path, argv, dsmax):
    if piece.startswith("L:"):
        return piece[2:].encode()
    if piece == "PATH":
        return path[:dsmax]
    if piece == "ARGV":
        return b" ".join(argv)[:dsmax]
    raise KeyError(piece)


def _lcp(a, b):
    n = min(len(a), len(b))
    if a[:n] == b[:n]:
        return n
    lo, hi = 0, n
    while lo < hi:                      # binary search on the first mismatch (slices compare at C speed)
        mid = (lo + hi + 1) // 2
        if a[:mid] == b[:mid]:
            lo = mid
        else:
            hi = mid - 1
    return lo


def is_selection(rec, pieces):
    """rec is an in-order concatenation of (possibly empty) prefixes of the pieces (skipping and truncating both allowed).
    Exact search for small inputs; for large ones the canonical strategies (whole-or-skip, longest-prefix) are tried."""
    total = sum(len(p) for p in pieces)
    if total <= 6000:
        states = {0}
        for p in pieces:
            nxt = set(states)
            for s in states:
                l = _lcp(p, rec[s:s + len(p)])
                nxt.update(range(s + 1, s + l + 1))
            states = nxt
        return len(rec) in states
    pos = 0
    for p in pieces:                    # whole-or-skip
        if rec.startswith(p, pos):
            pos += len(p)
    if pos == len(rec):
        return True
    pos = 0
    for p in pieces:                    # longest common prefix
        pos += _lcp(p, rec[pos:pos + len(p)])
    if pos == len(rec):
        return True
    pos = 0
    for k, p in enumerate(pieces):      # whole-or-skip, but the last contributing piece may be cut
        if rec.startswith(p, pos):
            pos += len(p)
        elif pos + _lcp(p, rec[pos:pos + len(p)]) == len(rec):
            return True
    return pos == len(rec)


def message_ok(got, rec, path, argv, info):
    """Is `got` an acceptable message for the expected record `rec` (pieces + limits)? Returns (ok, exact-expected-or-None)."""
    dsmax, logmax = DSMAX[rec["dsmax"]], LOGMAX[rec["logmax"]]
    pieces = []
    for p in rec["msg"]:
        if p == "DEFAULTPFX":
            pieces.append(b"[uid:%d sid:%d tty:%s cwd:%s filename:%s]: " % (info["uid"], info["sid"], info.get("tty", b"(none)"), info["cwd"], path[:dsmax]))
        else:
            pieces.append(piece_bytes(p, path, argv or [], dsmax))
    full = b"".join(pieces)
    alts = [full]
    if rec["msg"] and rec["msg"][-1].startswith("L:[ERROR: Data source 'nosuch'"):
        alts.append(full + b"b")          # formatting may stop or continue after an unknown data source
    for a in alts:
        if len(a) <= logmax and got == a:
            return True, a
    if all(len(a) > logmax for a in alts):
        return (len(got) <= logmax and is_selection(got, pieces)), None
    return False, alts[0]


def frame_records(sinkname, data):
    """observed sink delta -> list of records (bytes)"""
    if data is None:
        return []
    if isinstance(data, list):
        return [bytes.fromhex(x) for x in data]
    if isinstance(data, dict):
        return [b"<file shrunk>"]
    raw = bytes.fromhex(data)
    if not raw:
        return []
    parts = raw.split(b"\n")
    if parts[-1] == b"":
        return [p + b"\n" for p in parts[:-1]]
    return [p + b"\n" for p in parts[:-1]] + [parts[-1]]


SINKMAP_UNUSED = {"file": "file", "filetpl": "filetpl", "sock": "sock", "devlog": "devlog", "stdout": "stdout", "stderr": "stderr", "devtty": "devtty"}


def compare_sinks(observed, expect, file_rec, path, argv, info):
    """observed: {sink: data}; expect: list of expected records (0 or 1). Returns list of problem strings."""
    probs = []
    want = {}
    for r in expect:
        want[r["sink"]] = r
    errlog = file_rec.get("errlog") == "yes" and file_rec.get("state") == "ok"
    for sname, data in observed.items():
        if sname == "full":
            if any(x != "46" for x in data):
                probs.append("a datagram reached a socket whose queue was full")
            continue
        recs = frame_records(sname, data)
        if sname not in want:
            if recs and not (errlog and all(len(x) < 300 for x in recs)):
                probs.append("unexpected output at sink %s: %r" % (sname, recs[0][:120]))
            continue
        r = want[sname]
        if not recs:
            probs.append("no record at %s when the real exec started" % sname)
            continue
        if r["frame"] == "line" and not errlog:
            recs = [b"".join(recs)]          # the message itself may contain newline bytes: the whole delta is the one record
        main = recs[-1] if errlog else recs[0]
        extra = recs[:-1] if errlog else recs[1:]
        if extra and not errlog:
            probs.append("%d records at %s instead of one: %r ..." % (len(recs), sname, recs[1][:80]))
        if r["frame"] == "line":
            if not main.endswith(b"\n"):
                probs.append("record at %s lacks the newline" % sname)
                msg = main
            else:
                msg = main[:-1]
        elif r["frame"] == "dgram":
            msg = main
        else:
            pre = b"<%d>%s[%d]: " % (r["pri"], IDENT[r["ident"]][1], info["pid"])
            if not main.startswith(pre):
                probs.append("devlog datagram prefix %r, expected %r" % (main[:len(pre) + 8], pre))
                continue
            msg = main[len(pre):]
        ok, exact = message_ok(msg, r, path, argv, info)
        if not ok:
            probs.append("message at %s is %r (len %d), expected %s" % (sname, msg[:160], len(msg),
                                                                         ("%r (len %d)" % (exact[:160], len(exact))) if exact is not None else "a bounded selection of the pieces"))
    for sname in want:
        if sname not in observed:
            probs.append("sink %s not observable in this run" % sname)
    return probs


SNAPKEYS = ("fds", "heap", "envp", "envsum", "cwd", "umask", "sigmask", "sigacts", "timers", "rlimits", "comm", "nice", "dumpable", "children", "locale", "termios0", "nthreads")


def build_script(ctx, items, warm=True, snap=True):
    """items: list of (label, file_rec, call_rec, result). One forked child per item."""
    s = drv.Script()
    s.add("sinkfile", "file", drv.hx(ctx.log)).add("sinkfile", "filetpl", drv.hx(ctx.tpl_real)).add("sinkfifo", "filefifo", drv.hx(ctx.fifo)).add("sinkstd")
    s.add("sinksock", "sock", drv.hx(ctx.sock)).add("sinkdevlog", "devlog", drv.hx(ctx.devlog))
    if ctx.sock107:
        s.add("sinksock", "sock107", drv.hx(ctx.sock107))
    s.add("sinkfull", "full", drv.hx(ctx.full)).add("fillsock", drv.hx(ctx.full))
    s.add("helperout", drv.hx(ctx.helper_out.encode()))
    for label, f, call, result in items:
        real = result == "replaced"
        ini = ini_for(f, ctx)
        kind, p, argv, envp = call_for(call, ctx, real)
        s.add("emit", "item:" + label)
        if call.get("pid"):
            s.add("forkpid", int(call["pid"][1:]))        # SnoopyCallMC!PidClasses: "p<number>"
        else:
            s.add("fork")
        if sum(label.encode()) % 4 == 1 and not real:
            s.add("threadstack", 256 * 1024)   # a quarter of the calls come from a thread with a 256 KiB stack (the configured limits go up to 1 MiB)
        if sum(label.encode()) % 3 == 0 and not real:
            s.add("stdin", "closed").add("emit", "closed0:" + label)   # a third of the callers have no descriptor 0 (daemons): whatever the library opens first gets number 0
        if f.get("out") in ("devlog", "default", "unknown") and f.get("sinkst", "ok") != "ok":
            s.add("envset", drv.hx(b"REC_DEVLOG"), drv.hx(ctx.nosock if f["sinkst"] == "absent" else ctx.full))
        if f.get("out") == "devtty" and f.get("state") == "ok":
            s.add("sinkpty")          # a controlling terminal costs ~30 ms of tty hang-up per child: only where it is the sink
        if ini == "DIR":
            s.add("ini", "-").add("inidir")
        else:
            s.add("inirmdir").add("ini", drv.hx(ini) if ini is not None else "-")
        s.add("dumpenv")
        set_path(s, call, p, ctx)
        set_argv(s, call, argv)
        if kind == "execve":
            s.envp(envp)
        jam = f.get("out") == "filefifo" and f.get("state") == "ok"
        if sum(label.encode()) % 4 == 2:
            s.add("sigblock", 13).add("sigblock", 10)      # a quarter of the callers have SIGPIPE and SIGUSR1 blocked
        if sum(label.encode()) % 4 == 3:
            s.add("sigactions")                            # ... another quarter have sigaction()-installed handlers (flags, mask) for SIGPIPE & co.
        if warm:
            if jam:
                s.add("fifojam", "filefifo", 60)
            if snap:
                s.add("snapnow", "first:" + label)          # the FIRST call of the process must leave no residue either (one-time allocations aside)
            s.add("ret", -1, 2).add("quiet", 1).call(kind, "warm").add("quiet", 0)
            if jam:
                s.add("fifowait")
            if snap:
                s.add("snapnow", "afterfirst:" + label)
            s.add("drain", "warm:" + label)
        if jam:
            s.add("fifojam", "filefifo", 60)      # the pipe is full when the record arrives; the reader makes room 60 ms later
        s.add("snap", 1 if snap else 0)
        if real:
            s.add("real")
        else:
            s.add("ret", -1, ERRNO[result])
        s.add("emit", "begin:" + label).call(kind, label).add("endfork").add("drain", "post:" + label).add("helperdump", label)
    return s


def run_batches(build, items, workdir, workers=None, warm=True, snap=True, timeout=900, pidns=False):
    """Execute items (label, file, call, result) in `workers` parallel xdrv processes, each in its own mount
    namespace with a private copy of the library's config directory. Returns {label: observation dict}."""
    workers = workers or c.NCPU
    batches = [items[i::workers] for i in range(workers)]
    batches = [b for b in batches if b]
    ctxs = [Ctx(build, os.path.join(workdir, "w%d" % i)) for i in range(len(batches))]
    can_ns = bool(build.get("cwd_etc"))       # private config per worker through /proc/self/cwd (see vlib.common.build)

    def one(i):
        ctx = ctxs[i]
        script = build_script(ctx, batches[i], warm=warm, snap=snap)
        pre = preload(build)
        sp = os.path.join(ctx.w, "script")
        op = os.path.join(ctx.w, "out")
        with open(sp, "w") as f:
            f.write(script.text())
        if os.path.exists(op):
            os.unlink(op)
        ini = os.path.join(ctx.etc, "snoopy.ini") if can_ns else build["ini"]
        cmd = ["env", "LD_PRELOAD=" + pre] + ["%s=%s" % kv for kv in SAN_ENV.items()] + [ "XDRV_INI=" + ini, os.path.join(c.BUILD, "xdrv"), sp, op]
        if pidns:                                  # a private pid namespace (own pid_max, pids chosen with clone3 set_tid) with its own /proc
            cmd = ["unshare", "-p", "-f", "--kill-child", "--mount-proc"] + cmd
        env = {"PATH": "/usr/sbin:/usr/bin:/sbin:/bin", "HOME": "/root", "LANG": "C", "TZ": "UTC"}
        try:
            p = subprocess.run(cmd, env=env, capture_output=True, timeout=timeout, stdin=subprocess.DEVNULL, cwd=ctx.w)
            rc = p.returncode
        except subprocess.TimeoutExpired:
            rc = 997
        evs = []
        if os.path.exists(op):
            for line in open(op, errors="replace"):
                line = line.strip()
                if line:
                    try:
                        evs.append(json.loads(line))
                    except ValueError:
                        evs.append({"ev": "garbled", "raw": line[:200]})
        for f_ in (sp, op):                 # scripts and raw outputs can be large (hex of every argument and record): drop them once parsed
            try:
                os.unlink(f_)
            except OSError:
                pass
        return rc, evs

    if can_ns:
        with ThreadPoolExecutor(max_workers=len(batches)) as ex:
            outs = list(ex.map(one, range(len(batches))))
    else:
        outs = [one(i) for i in range(len(batches))]
    obs = {}
    for i, (rc, evs) in enumerate(outs):
        cur, pend = None, {}
        for e in evs:
            ev = e.get("ev")
            if ev == "mark" and e["label"].startswith("item:"):
                cur, pend = e["label"][5:], {}
                obs[cur] = dict(ctx=ctxs[i], rc=rc)
            elif ev == "mark" and e["label"].startswith("closed0:"):
                pend["closed0"] = True
            elif ev == "snapnow":
                pend[e["label"].split(":", 1)[0]] = e.get("snap")
            elif ev == "mark" and e["label"].startswith("begin:"):
                obs[cur].update(pend)
            elif ev == "env":
                pend["env"] = e
            elif ev == "pty":
                pend["pty"] = e
            elif ev == "error":
                pend.setdefault("errors", []).append(e["what"])
                if cur in obs:
                    obs[cur].setdefault("errors", []).append(e["what"])
            elif ev in ("pre", "at", "ret") and cur is not None and e.get("label") == cur:
                obs[cur].setdefault(ev, []).append(e)
            elif ev == "child":
                if cur is not None:
                    obs[cur]["child"] = e
            elif ev == "drain" and e.get("label", "").startswith("post:"):
                obs.setdefault(e["label"][5:], {"ctx": ctxs[i], "rc": rc})["post"] = e
            elif ev == "helper":
                obs.setdefault(e["label"], {"ctx": ctxs[i], "rc": rc})["helper"] = bytes.fromhex(e["data"])
    return obs, can_ns


def evaluate(label, f, call, result, o):
    """Compare one observation with the specification's expectation. Returns {prop: [(sig, what)]}."""
    out = {"C01": [], "C04": [], "C16": []}
    if o is None or "ctx" not in o:
        out["C01"].append(("no-observation", "behaviour produced no observation at all"))
        return out
    ctx = o["ctx"]
    real = result == "replaced"
    kind, path, argv, envp = call_for(call, ctx, real)
    pre, at, ret = o.get("pre", []), o.get("at", []), o.get("ret", [])
    child = o.get("child", {})
    if child.get("timedout"):
        out["C01"].append(("no-return", "the call did not return: the process was still inside it when the harness watchdog killed it"))
    elif child.get("signal"):
        out["C01"].append(("crash", "the calling process died with signal %d during the call" % child["signal"]))
    if not pre:
        if not child.get("signal"):
            out["C01"].append(("no-pre", "call never started (harness): %s" % o.get("errors")))
        return out
    # ---- C01
    if len(at) != 1:
        out["C01"].append(("real-exec-count", "the real exec was entered %d times" % len(at)))
    for a in at:
        for k, nm in (("path_ptr", "path pointer"), ("argv_ptr", "argv pointer"), ("envp_ptr", "envp pointer"), ("content", "string contents")):
            if not a[k]:
                out["C01"].append(("untouched:" + k, "%s handed to the real %s differ from the caller's" % (nm, kind)))
        if kind == "execv" and (a["environ"] != pre[0]["snap"]["envp"] or a["envsum"] != pre[0]["snap"]["envsum"]):
            out["C01"].append(("untouched:environ", "environ changed between entry and the real execv"))
    if not real:
        if len(ret) != 1:
            out["C01"].append(("no-return", "the call did not return to its caller"))
        for r_ in ret:
            if r_["ret"] != -1 or r_["errno"] != ERRNO[result]:
                out["C01"].append(("passthrough", "caller saw ret=%d errno=%d, the real exec returned -1/%d" % (r_["ret"], r_["errno"], ERRNO[result])))
            if r_["n_real"] != 1:
                out["C01"].append(("real-exec-count", "the real exec was entered %d times" % r_["n_real"]))
            if not r_["inputs_intact"] or not r_["environ_same"]:
                out["C01"].append(("inputs-modified", "caller's strings or environ modified after return"))
    else:
        h = o.get("helper", b"")
        toks = h.split(b"\0")
        exp_env = envp if kind == "execve" else [bytes.fromhex(x) for x in o.get("env", {}).get("vars", [])]
        exp = [b"ARGV"] + (argv if argv else ([b""] if argv is None or argv == [] else [])) + [b"ENVP"] + (exp_env or []) + [b"END", b""]
        if argv in (None, []):
            # the kernel substitutes an empty argv[0]; accept either shape
            ok = toks in ([b"ARGV", b"", b"ENVP"] + (exp_env or []) + [b"END", b""], [b"ARGV", b"ENVP"] + (exp_env or []) + [b"END", b""])
        else:
            ok = toks == exp
        if not ok:
            out["C01"].append(("replaced-image-args", "the replaced image received argv/envp %r..., expected %r..." % (toks[:6], exp[:6])))
        if ret:
            out["C01"].append(("replaced-returned", "exec returned although the image should have been replaced (ret %s)" % ret[0]["ret"]))
    # ---- C04
    info = {"pid": at[0]["pid"] if at else 0, "sid": o.get("env", {}).get("sid", 0), "uid": 0, "cwd": os.path.realpath(ctx.w).encode(),
            # %{tty} of the built-in format: "(none)" when descriptor 0 is not a terminal, the documented diagnostic when there is no descriptor 0
            "tty": b"ERROR(ttyname_r->EBADF)" if o.get("closed0") else b"(none)"}
    if at:
        exp_recs = f["_expect"]
        probs = compare_sinks(at[0]["sinks"], exp_recs, f, path, argv, info)
        for p_ in probs:
            out["C04"].append(("at-exec:" + p_.split(":")[0].split(" ")[0] + ":" + (exp_recs[0]["sink"] if exp_recs else "none"), p_))
    late = []
    for e in ret + ([o["post"]] if "post" in o else []):
        for sname, data in e["sinks"].items():
            if sname != "full" and frame_records(sname, data):
                late.append((sname, frame_records(sname, data)[0][:100]))
    if late and not (f.get("errlog") == "yes"):
        out["C04"].append(("late-output:" + late[0][0], "output appears after the real exec started: %r" % (late[:2],)))
    # ---- C16
    if o.get("first") and o.get("afterfirst"):
        for k in SNAPKEYS:
            if k not in ("heap", "children") and o["first"][k] != o["afterfirst"][k]:
                out["C16"].append(("residue:%s:first-call" % k, "%s differs after the first call of the process: %r -> %r" % (k, o["first"][k], o["afterfirst"][k])))
    snaps = [("entry", pre[0].get("snap"))] + [("real-exec", a.get("snap")) for a in at] + [("return", r_.get("snap")) for r_ in ret]
    base = snaps[0][1]
    if base:
        for nm, sn in snaps[1:]:
            if not sn:
                continue
            for k in SNAPKEYS:
                if sn[k] != base[k]:
                    out["C16"].append(("residue:%s:%s" % (k, nm), "%s differs at %s: %r -> %r" % (k, nm, base[k], sn[k])))
    return out


# ------------------------------------------------------------------------------------------------
# histories: several (config rewrite, call) steps inside ONE process (C06, C11, C16 growth)
def build_script_hist(ctx, items, snap=True):
    """items: list of (label, [ (file_rec, call_rec, result) ... ]). All steps of an item run in one forked child."""
    s = drv.Script()
    s.add("sinkfile", "file", drv.hx(ctx.log)).add("sinkfile", "filetpl", drv.hx(ctx.tpl_real)).add("sinkfifo", "filefifo", drv.hx(ctx.fifo)).add("sinkstd")
    s.add("sinksock", "sock", drv.hx(ctx.sock)).add("sinkdevlog", "devlog", drv.hx(ctx.devlog))
    s.add("helperout", drv.hx(ctx.helper_out.encode()))
    for label, steps in items:
        s.add("emit", "item:" + label).add("fork").add("dumpenv").add("snap", 1 if snap else 0)
        for k, (f, call, result) in enumerate(steps):
            real = result == "replaced"
            ini = ini_for(f, ctx)
            kind, p, argv, envp = call_for(call, ctx, real)
            if ini == "DIR":
                s.add("ini", "-").add("inidir")
            else:
                s.add("inirmdir").add("ini", drv.hx(ini) if ini is not None else "-")
            set_path(s, call, p, ctx)
            set_argv(s, call, argv)
            if kind == "execve":
                s.envp(envp)
            if real:
                s.add("real")
            else:
                s.add("ret", -1, ERRNO[result])
            s.add("emit", "begin:%s#%d" % (label, k)).call(kind, "%s#%d" % (label, k))
        s.add("endfork").add("drain", "post:" + label).add("helperdump", label)
    return s


def bigcgroup_wrap(ctx):
    """command prefix: run in a process whose /proc/<pid>/cgroup is larger than 10 KB (harness/bigcgroup.sh)"""
    return ["unshare", "-m", "--propagation", "private", os.path.join(c.VERIF, "harness/bigcgroup.sh"), ctx.w, "3", "19", "--"]


def run_hist(build, items, workdir, workers=None, timeout=900, wrap=None):
    workers = workers or c.NCPU
    batches = [items[i::workers] for i in range(workers)]
    batches = [b for b in batches if b]
    ctxs = [Ctx(build, os.path.join(workdir, "w%d" % i)) for i in range(len(batches))]
    par = bool(build.get("cwd_etc"))

    def one(i):
        ctx = ctxs[i]
        sp, op = os.path.join(ctx.w, "script"), os.path.join(ctx.w, "out")
        with open(sp, "w") as f:
            f.write(build_script_hist(ctx, batches[i]).text())
        if os.path.exists(op):
            os.unlink(op)
        pre = ":".join([build["lib"], os.path.join(c.BUILD, "librec.so")])
        ini = os.path.join(ctx.etc, "snoopy.ini") if par else build["ini"]
        cmd = ["env", "LD_PRELOAD=" + pre, "XDRV_INI=" + ini, os.path.join(c.BUILD, "xdrv"), sp, op]
        if wrap:
            cmd = wrap(ctx) + cmd
        env = {"PATH": "/usr/sbin:/usr/bin:/sbin:/bin", "HOME": "/root", "LANG": "C", "TZ": "UTC"}
        try:
            rc = subprocess.run(cmd, env=env, capture_output=True, timeout=timeout, stdin=subprocess.DEVNULL, cwd=ctx.w).returncode
        except subprocess.TimeoutExpired:
            rc = 997
        evs = []
        if os.path.exists(op):
            for line in open(op, errors="replace"):
                try:
                    evs.append(json.loads(line))
                except ValueError:
                    pass
        for f_ in (sp, op):                 # scripts and raw outputs can be large (hex of every argument and record): drop them once parsed
            try:
                os.unlink(f_)
            except OSError:
                pass
        return rc, evs

    if par:
        with ThreadPoolExecutor(max_workers=len(batches)) as ex:
            outs = list(ex.map(one, range(len(batches))))
    else:
        outs = [one(i) for i in range(len(batches))]
    obs = {"_rcs": [rc for rc, _ in outs]}
    for i, (rc, evs) in enumerate(outs):
        item, env = None, None
        for e in evs:
            ev = e.get("ev")
            if ev == "mark" and e["label"].startswith("item:"):
                item = e["label"][5:]
                obs[item] = {"ctx": ctxs[i], "steps": {}, "env": None}
            elif item is None:
                continue
            elif ev == "env":
                obs[item]["env"] = e
            elif ev in ("pre", "at", "ret") and "#" in e.get("label", ""):
                lab, k = e["label"].rsplit("#", 1)
                if lab == item:
                    obs[item]["steps"].setdefault(int(k), {}).setdefault(ev, []).append(e)
            elif ev == "child":
                obs[item]["child"] = e
            elif ev == "drain" and e.get("label", "").startswith("post:"):
                obs.setdefault(e["label"][5:], {"ctx": ctxs[i], "steps": {}})["post"] = e
            elif ev == "helper":
                obs.setdefault(e["label"], {"ctx": ctxs[i], "steps": {}})["helper"] = bytes.fromhex(e["data"])
    return obs


def evaluate_hist(label, steps, expects, o, tail=0):
    """-> list of (step index, prop-bucket, sig, what)"""
    res = []
    if o is None or "ctx" not in o:
        return [(0, "C01", "no-observation", "no observation")]
    if o.get("child", {}).get("signal"):
        res.append((len(o["steps"]), "C01", "no-return" if o["child"].get("timedout") else "crash",
                    "a call did not return (killed by the harness watchdog)" if o["child"].get("timedout") else "the calling process died with signal %d" % o["child"]["signal"]))
    base_snap = None
    for k, (f, call, result) in enumerate(steps):
        so = dict(o["steps"].get(k, {}))
        so["ctx"] = o["ctx"]; so["env"] = o.get("env") or {}
        if k == len(steps) - 1:
            for key in ("child", "post", "helper"):
                if key in o:
                    so[key] = o[key]
        f2 = dict(f); f2["_expect"] = expects[k]
        if "pre" not in so:
            if not o.get("child", {}).get("signal"):
                res.append((k, "C01", "no-pre", "step never started"))
            break
        r = evaluate(label, f2, call, result, so)
        for prop, lst in r.items():
            for sig, what in lst:
                res.append((k, prop, sig, "call #%d of the history: %s" % (k + 1, what)))
        # growth: the harness ends every history with identical repeats of its last step; libc's one-time allocations
        # (stdio buffers, NSS caches) have happened by the first repeat, so any further increase is accumulation
        sn = so["pre"][0].get("snap")
        if tail and k == len(steps) - 2:
            base_snap = sn
        elif tail and k == len(steps) - 1 and base_snap and sn:
            for key in ("fds", "heap"):
                if sn[key] != base_snap[key]:
                    res.append((k, "C16", "growth:" + key, "%s accumulates over identical calls: %r, then %r one call later" % (key, base_snap[key], sn[key])))
    return res
