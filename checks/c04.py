from checks import c01
def run(tier, seed, replay=None):
    return c01.run_prop("C04", tier, seed)
