from checks import c09
def run(tier, seed, replay=None):
    return c09.run_prop("C10", tier, seed)
