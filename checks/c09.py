"""C09 / C10: concurrent exec calls and fork, by schedule replay (spec/Tsrm.tla, harness/tsdrv.c).
The harness is linked statically against the archives of a scratch build of the working tree, measures the
critical-section sequence of one call on the real library, hands it to TLC as the constant Sections, and replays every
schedule TLC generates (bounded preemptions) on the real tsrm.c, comparing the projected repository state after every
step, the records written, %{snoopy_threads} values and -- for C10 -- the fate of forked children."""
import json, os, random, re, subprocess
from concurrent.futures import ThreadPoolExecutor
from vlib import common as c

FMT = "T=%{tid} n=%{snoopy_threads} f=%{filename} c=%{cmdline}"


def build_tsdrv(b):
    src = b["src"]
    out = os.path.join(b["root"], "tsdrv")
    cmd = ["gcc", "-g", "-O1", "-Wall", "-Wno-format-truncation", "-I" + src + "/src", "-I" + src, "-o", out, os.path.join(c.VERIF, "harness/tsdrv.c"),
           src + "/src/entrypoint/.libs/libsnoopy-entrypoint-execve-wrapper.a", src + "/src/.libs/libsnoopy-no-entrypoint.a",
           "-Wl,--wrap=snoopy_tsrm_ctor", "-Wl,--wrap=snoopy_tsrm_dtor", "-Wl,--wrap=snoopy_tsrm_get_threadCount", "-lpthread", "-ldl"]
    r = subprocess.run(cmd, capture_output=True, text=True)
    if r.returncode:
        raise c.MachineryError("cannot link the schedule driver against the scratch build:\n" + r.stderr[-2000:])
    return out


def gen_cfg(name, threads, ncalls, k, forkers, minlist=0):
    name = "%s.%d" % (name, os.getpid())               # concurrent runs of this check must not share generated files
    path = os.path.join(c.SPEC, name + ".cfg")
    with open(path, "w") as f:
        f.write("SPECIFICATION Spec\nCONSTANTS\n  Threads <- %s\n  NCalls = %d\n  Sections <- SecMeasured\n  MaxPreempt = %d\n  MinListAtFork = %d\n"
                "  Forkers <- %s\n  AtFork = \"locked\"\n  Defects <- NoDefects\nINVARIANTS Dump\nCHECK_DEADLOCK FALSE\n" % (threads, ncalls, k, minlist, forkers))
    return name + ".cfg"


def to_line(nthreads, ncalls, hist):
    toks = ["%d" % nthreads, "%d" % ncalls]
    for st in hist:
        a = {"enter": "e", "lock": "l", "unlock": "u", "fork": "f"}[st["a"]]
        lst = ".".join(str(x) for x in st["after"]["list"]) or "-"
        toks.append("%d:%d:%s:%s:%d:%d" % (st["p"], st["t"], a, lst, st["after"]["count"], st["after"]["owner"]))
    return " ".join(toks)


def expected_counts(hist, sections):
    """per (p, t): list of values the 'count' sections read, from the specification's own state after each step"""
    secidx, res = {}, {}
    for st in hist:
        key = (st["p"], st["t"])
        if st["a"] == "enter":
            secidx[key] = 0
        elif st["a"] == "lock" and key in secidx and secidx[key] < len(sections):
            if sections[secidx[key]] == "count":
                res.setdefault(key, []).append(st["after"]["count"])
        elif st["a"] == "unlock" and key in secidx and secidx[key] < len(sections):
            secidx[key] += 1
            if secidx[key] >= len(sections):
                del secidx[key]
    return res


def replay(tsdrv, ini, workdir, lines):
    workers = c.NCPU
    chunks = [lines[i::workers] for i in range(workers)]
    order = [list(range(len(lines)))[i::workers] for i in range(workers)]

    def one(i):
        if not chunks[i]:
            return []
        d = os.path.join(workdir, "r%d" % i)
        os.makedirs(d, exist_ok=True)
        log, sf, of = os.path.join(d, "log"), os.path.join(d, "sched"), os.path.join(d, "out")
        myini = os.path.join(d, "ini")
        open(myini, "w").write('[snoopy]\nmessage_format = "%s"\noutput = file:%s\n' % (FMT, log))
        open(sf, "w").write("\n".join(chunks[i]) + "\n")
        if os.path.exists(of):
            os.unlink(of)
        try:
            subprocess.run([tsdrv, "replay", myini, log, sf, of], capture_output=True, timeout=3000, stdin=subprocess.DEVNULL)
        except subprocess.TimeoutExpired:
            pass
        res, cur = {}, None
        for line in (open(of, errors="replace") if os.path.exists(of) else []):
            try:
                e = json.loads(line)
            except ValueError:
                continue
            if "schedule" in e:
                cur = e["schedule"] - 1
                res[cur] = {}
            elif "crashed" in e:
                res.setdefault(e["crashed"] - 1, {})["crashed"] = e["signal"]
            elif cur is not None:
                res[cur].update(e)
        return [(order[i][k], res.get(k)) for k in range(len(chunks[i]))]

    out = {}
    with ThreadPoolExecutor(max_workers=workers) as ex:
        for part in ex.map(one, range(workers)):
            for idx, r in part:
                out[idx] = r
    return out


def judge(prop, nthreads, ncalls, hist, sections, r):
    """-> (violations [(sig, what)], drift or None)"""
    v = []
    if r is None:
        return [("no-result", "schedule produced no result")], None
    if "crashed" in r and r["crashed"]:
        return [("crash", "the process died with signal %d under this schedule" % r["crashed"])], None
    if "hang" in r:
        return [("deadlock", "thread %d never reached its next synchronisation point (step %s of the schedule)" % (r["thread"], r["hang"]))], None
    if "unschedulable" in r:
        vv = []
        if prop == "C10":          # children forked before the schedule became unexecutable still count
            for ch in r.get("children", []):
                if ch["status"] != 1:
                    kind = {2: "child-deadlock", 3: "child-died", 4: "child-stuck"}.get(ch["status"], "child")
                    vv.append((kind, "child forked by thread %d: %s" % (ch["t"], ch["note"])))
        return vv, "schedule not executable cooperatively: thread %d blocked outside a scheduling point at step %s but the process finished when released" % (r["thread"], r["unschedulable"])
    if "final" not in r:
        return [("no-result", "schedule did not complete: %r" % r)], None
    drift = r["first_drift"] if r.get("drift") else None
    if prop == "C09":
        if r["final"] != ":0:0":
            v.append(("not-quiescent", "after all calls returned the repository still holds %s (list:count:owner)" % r["final"]))
        lines = [l for l in r.get("log", "").split("\n") if l]
        exp = expected_counts(hist, sections)
        tidmap = {int(t): i + 1 for i, t in enumerate(r["tids"])}
        got = {}
        for l in lines:
            m = re.match(r"T=(\d+) n=(\d+) f=/nonexistent/T(\d+)C(\d+) c=prog-T(\d+) call-(\d+)$", l)
            if not m:
                v.append(("garbled-record", "record %r is not any thread's own record" % l[:120]))
                continue
            tid, n, ft, fc, ct, cc = [int(x) for x in m.groups()]
            if not (ft == ct and fc == cc and tidmap.get(tid) == ft):
                v.append(("mixed-record", "record %r mixes data of different threads/calls (thread ids %r)" % (l[:120], tidmap)))
                continue
            got.setdefault(ft, []).append((fc, n))
        for t in range(1, nthreads + 1):
            calls = sorted(got.get(t, []))
            if [k for k, _ in calls] != list(range(1, ncalls + 1)):
                v.append(("record-count", "thread %d made calls 1..%d but its records are for calls %r" % (t, ncalls, [k for k, _ in calls])))
                continue
            want = exp.get((0, t), [])
            have = [n for _, n in calls]
            if want and have != want:
                v.append(("snoopy_threads", "thread %d logged %%{snoopy_threads} = %r, under this schedule the specification gives %r" % (t, have, want)))
        if r.get("umask", 0o22) != 0o22:
            v.append(("process-state:umask", "after all calls returned the process's umask is %03o (022 before): a call's temporary setting was clobbered by another thread's" % r["umask"]))
        if any(x != 2 for x in r.get("rets", [])):
            v.append(("exec-result", "exec calls returned errno %r instead of ENOENT" % r.get("rets")))
    else:
        for ch in r.get("children", []):
            if ch["status"] != 1:
                kind = {2: "child-deadlock", 3: "child-died", 4: "child-stuck"}.get(ch["status"], "child")
                v.append((kind, "child forked by thread %d: %s" % (ch["t"], ch["note"])))
        forks = [st for st in hist if st["a"] == "fork"]
        if forks and not r.get("children"):
            v.append(("no-child", "the schedule forks but no child was observed"))
        if r["final"] != ":0:0":
            v.append(("parent-affected", "after the fork the parent's repository ends as %s" % r["final"]))
        if any(x != 2 for x in r.get("rets", [])):
            v.append(("parent-affected", "parent exec calls returned %r" % r.get("rets")))
    return v, drift


def run_prop(prop, tier, seed):
    rep = c.Reporter(prop, tier, seed, "model_checking")
    rnd = random.Random(seed)
    b = c.build("prod", tag=prop)
    tsdrv = build_tsdrv(b)
    ini = os.path.join(b["root"], "measure.ini")
    log = os.path.join(b["root"], "measure.log")
    open(ini, "w").write('[snoopy]\nmessage_format = "%s"\noutput = file:%s\n' % (FMT, log))
    m = subprocess.run([tsdrv, "measure", ini, log], capture_output=True, text=True, timeout=60)
    try:
        sections = json.loads(m.stdout)
    except ValueError:
        raise c.MachineryError("could not measure the critical sections of a call: %r %r" % (m.stdout[:200], m.stderr[:200]))
    if not sections or sections[0] != "ctor" or sections[-1] != "dtorremove":
        rep.assumptions.append("unusual section sequence measured: %r" % sections)
    secfile = os.path.join(b["root"], "sections.ndjson")
    open(secfile, "w").write(json.dumps(sections) + "\n")
    rep.cov["sections_per_call"] = sections
    # model checking (fixed section list) + vacuity guards
    if prop == "C09":
        rep.tlc(c.run_tlc("TsrmMC.tla", "TsrmMC.cfg"))
        rep.tlc(c.run_tlc("TsrmMC.tla", "TsrmMCfull.cfg"))
        rep.cov["vacuity_guards"] = {"entry left registered": c.run_tlc("TsrmMC.tla", "TsrmDefect_nounreg.cfg", expect_violation=True).violated}
        plans = [("T2", 2, 1, 2, "NoFork", None), ("T2", 2, 2, 2, "NoFork", 1500), ("T3", 3, 1, 1, "NoFork", None)]
        if tier == "thorough":
            plans = [("T2", 2, 1, 3, "NoFork", None), ("T2", 2, 2, 2, "NoFork", None), ("T3", 3, 1, 2, "NoFork", 12000), ("T2", 2, 3, 2, "NoFork", 6000), ("T4", 4, 1, 1, "NoFork", None)]
    else:
        rep.tlc(c.run_tlc("TsrmMC.tla", "TsrmMCfork.cfg"))
        rep.cov["vacuity_guards"] = {"no fork handlers": c.run_tlc("TsrmMC.tla", "TsrmDefect_nofork_deadlock.cfg", expect_violation=True).violated,
                                     "child keeps inherited lock": c.run_tlc("TsrmMC.tla", "TsrmDefect_keeplock_deadlock.cfg", expect_violation=True).violated}
        # the last plan is sampled with TLC -simulate (its state graph is too large to enumerate): two threads inside calls when the third forks
        plans = [("T2", 2, 1, 1, "Fork1", None), ("T3", 3, 1, 1, "Fork1", 1500), ("T3", 3, 1, 2, "Fork1", 500, 400)]
        if tier == "thorough":
            plans = [("T2", 2, 1, 2, "Fork1", 12000), ("T3", 3, 1, 1, "Fork1", None), ("T2", 2, 2, 1, "Fork1", 6000), ("T3", 3, 1, 2, "Fork1", 12000, 1500), ("T4", 4, 1, 3, "Fork1", 6000, 800)]
    total, nontriv, drifts = 0, 0, 0
    seen_sigs = {}
    for plan in plans:
        (tname, nt, nc, k, forkers, cap), sim = plan[:6], (plan[6] if len(plan) > 6 else None)
        cfg = gen_cfg("TsrmGen_%s_%d_%d_%s" % (tname, nc, k, forkers), tname, nc, k, forkers, minlist=(2 if sim and prop == "C10" else 0))
        if sim:
            g = c.run_tlc("TsrmMC.tla", cfg, env={"SECTIONS_FILE": secfile}, heap="8g", timeout=2400, simulate=sim, depth=nt * nc * 60 + 60, seed=seed, workers=8)
        else:
            g = c.run_tlc("TsrmMC.tla", cfg, env={"SECTIONS_FILE": secfile}, heap="24g", timeout=2400)
        try:
            os.unlink(os.path.join(c.SPEC, cfg))
        except OSError:
            pass
        rep.tlc(g)
        hists = [json.loads(x) for x in g.printed]
        if sim:
            hists = [json.loads(x) for x in sorted(set(g.printed))]          # random walks repeat themselves
            if prop == "C10":
                hists = [h for h in hists if any(st["a"] == "fork" for st in h)]      # MinListAtFork = 2: the fork finds two other threads registered
        if cap and len(hists) > cap:
            rnd.shuffle(hists)
            hists = hists[:cap]
        c.log("[%s] replaying %d schedules (%d threads x %d calls, <= %d preemptions, forkers %s)" % (prop, len(hists), nt, nc, k, forkers))
        lines = [to_line(nt, nc, h) for h in hists]
        res = replay(tsdrv, ini, os.path.join(b["root"], "replay-%s-%d-%d" % (tname, nc, k)), lines)
        for i, h in enumerate(hists):
            total += 1
            switches = sum(1 for a, b_ in zip(h, h[1:]) if (a["p"], a["t"]) != (b_["p"], b_["t"]))
            if switches >= 2:
                nontriv += 1
            v, drift = judge(prop, nt, nc, h, sections, res.get(i))
            if drift:
                drifts += 1
                if len(rep.drift) < 10:
                    rep.drift.append(drift)
            for sig, what in v:
                seen_sigs[sig] = seen_sigs.get(sig, 0) + 1
                if seen_sigs[sig] > 3:
                    continue                     # already reported (and confirmed) this kind of failure three times
                r2 = replay(tsdrv, ini, os.path.join(b["root"], "confirm"), [lines[i]])
                v2, _ = judge(prop, nt, nc, h, sections, r2.get(0))
                if not any(s2 == sig for s2, _ in v2):
                    rep.assumptions.append("non-repeatable observation ignored: " + what[:100])
                    continue
                sched = " ".join("%s%d" % ({"enter": "E", "lock": "L", "unlock": "U", "fork": "F"}[s["a"]], s["t"]) + ("'" if s["p"] else "") for s in h)
                rep.violation("%s:%dx%d" % (sig, nt, nc), "%d threads x %d calls, schedule %s...: %s" % (nt, nc, sched[:150], what),
                              dict(threads=nt, calls=nc, schedule=sched, sections=sections))
        if len(rep.cov["samples"]) < 3 and hists:
            h = hists[len(hists) // 2]
            rep.sample(dict(threads=nt, calls=nc, max_preemptions=k, schedule=" ".join("%s%d" % (s["a"][0].upper(), s["t"]) + ("'" if s["p"] else "") for s in h)))
    if prop == "C10":
        # fork probe: the schedules above park a thread at the END of a critical section (its effects done). Here thread 1 is stopped right AFTER its
        # K-th acquisition of the mutex (section body not yet run; K = 1 in a fresh process is the very first instant the library holds a lock),
        # another thread forks, child and grandchild exec. Tsrm!ForkStart/ForkLock: the fork waits for the mutex; in any case the child's calls complete.
        nlocks = sum(1 for x in sections if x != "io")
        probes = [(k, warm, var) for k in range(1, nlocks + 1) for warm in (0, 1) for var in (0, 1)]

        def probe(pr):
            k, warm, var = pr
            plog = os.path.join(b["root"], "probe-%d-%d-%d.log" % pr)
            pini = os.path.join(b["root"], "probe-%d-%d-%d.ini" % pr)
            open(pini, "w").write('[snoopy]\nmessage_format = "%s"\noutput = file:%s\n' % (FMT, plog))
            try:
                p_ = subprocess.run([tsdrv, "forkprobe", pini, plog, str(k), str(warm), str(var)], capture_output=True, text=True, timeout=60, stdin=subprocess.DEVNULL)
                return pr, json.loads(p_.stdout.strip().split("\n")[-1])
            except (subprocess.TimeoutExpired, ValueError, IndexError):
                return pr, None
        early = 0
        with ThreadPoolExecutor(max_workers=c.NCPU) as ex:
            for pr, r in ex.map(probe, probes):
                total += 1
                nontriv += 1
                if r is None:
                    rep.violation("fork-probe:no-result", "fork probe K=%d warm=%d variant=%d did not finish within 60 s" % pr, dict(probe=pr))
                    continue
                if not r.get("reached"):
                    continue
                early += 1 if r.get("fork_returned_while_held") else 0
                if r.get("child") != 1:
                    r2 = probe(pr)[1]
                    if r2 and r2.get("child") == 1:
                        rep.assumptions.append("non-repeatable fork probe result ignored: %r" % (pr,))
                        continue
                    rep.violation("fork-probe:%s:%s" % ("first-call" if not pr[1] else "later-call", "child-first-forks" if pr[2] else "child-first-execs"),
                                  "fork while another thread has just taken the repository mutex for the %d. time in its call (%s process): %s%s" % (
                                      pr[0], "fresh" if not pr[1] else "warmed-up", r.get("note"), "; fork() returned while the mutex was still held" if r.get("fork_returned_while_held") else ""),
                                  dict(acquisition=pr[0], warm=pr[1], variant=pr[2], result=r))
        rep.cov["fork_probes"] = len(probes)
        if early:
            rep.drift.append("%d fork probes: fork() returned while another thread held the repository mutex (the specification lets it wait)" % early)
    if prop == "C09":
        total += tsan_stress(rep, tier)
    rep.cov["traces_validated_against_impl"] = total
    rep.cov["evaluations"] = total
    rep.cov["distinct_nontrivial"] = nontriv
    rep.cov["schedules_with_state_drift"] = drifts
    rep.cov["rule"] = ("behaviour = complete schedule (sequence of enter/lock/unlock%s steps of named threads) generated by TLC from Tsrm.tla "
                       "under a preemption bound, executed step by step on the real thread repository; non-trivial = at least two context switches"
                       % ("/fork" if prop == "C10" else ""))
    rep.assumptions += ["scheduling points are the operations on the repository mutex; state shared outside the lock is not reached by this check",
                        "the driver is linked statically against libsnoopy-no-entrypoint.a and the execve wrapper of the scratch build"]
    return rep.finish()


def run(tier, seed, replay_file=None):
    return run_prop("C09", tier, seed)


# ------------------------------------------------------------------------------------------------
# ThreadSanitizer stress: state shared OUTSIDE the repository lock (not a scheduling point of the replay)
STRESS_FMT = ("%{tid} %{snoopy_threads} %{login} %{username} %{eusername} %{group} %{cwd} %{hostname} %{datetime} %{tty} %{tty_username} %{env:HOME} "
              "%{rpname} %{cgroup:0} %{pid} %{timestamp_ms} %{filename} %{cmdline}")
IGNORED_FILES = ("/src/tsrm.c", "/src/util/list.c")


def tsan_stress(rep, tier, outputs=("file", "devlog", "stdout")):
    b = c.build("tsan", tag="C09tsan")
    src, root = b["src"], b["root"]
    r = subprocess.run(["gcc", "-c", "-O1", "-g", "-o", root + "/hidden.o", os.path.join(c.VERIF, "harness/tsstress_hidden.c")], capture_output=True, text=True)
    if r.returncode:
        raise c.MachineryError("tsstress_hidden.c does not compile: " + r.stderr[-500:])
    cmd = ["clang", "-g", "-O1", "-fsanitize=thread", "-o", root + "/tsstress", os.path.join(c.VERIF, "harness/tsstress.c"), root + "/hidden.o",
           src + "/src/entrypoint/.libs/libsnoopy-entrypoint-execve-wrapper.a", src + "/src/.libs/libsnoopy-no-entrypoint.a",
           "-Wl,--wrap=pthread_mutex_lock", "-Wl,--wrap=pthread_mutex_unlock", "-lpthread", "-ldl"]
    r = subprocess.run(cmd, capture_output=True, text=True)
    if r.returncode:
        raise c.MachineryError("cannot link the TSan stress driver: " + r.stderr[-1000:])
    nthreads, ncalls = (8, 120) if tier == "quick" else (64, 150)

    def races(out):
        found = {}
        for rp in out.split("WARNING: ThreadSanitizer: data race")[1:]:
            stacks = re.split(r"\n\s*\n", rp)
            tops = []
            for st in stacks[:2]:
                fr = re.findall(r"#\d+ (\w+) (\S+?):(\d+)", st)
                own = [(fn, f, ln) for fn, f, ln in fr if "/src/src/" in f or "/src/lib/" in f]
                tops.append(own[0] if own else None)
            if len(tops) == 2 and all(tops) and not any(t[1].endswith(x) for t in tops for x in IGNORED_FILES):
                key = tuple(sorted("%s:%s" % (os.path.basename(t[1]), t[0]) for t in tops))
                found[key] = ["%s %s:%s" % (t[0], t[1].split("/src/src/")[-1], t[2]) for t in tops]
        return found

    runs = 0
    for out in outputs:
        log = os.path.join(root, "stress-%s.log" % out)
        ini = os.path.join(root, "stress-%s.ini" % out)
        open(ini, "w").write('[snoopy]\nmessage_format = "%s"\noutput = %s\nsyslog_ident = "id-%%{pid}"\n' % (STRESS_FMT, {"file": "file:" + log, "devlog": "devlog", "stdout": "stdout"}[out]))
        env = dict(os.environ, TSAN_OPTIONS="halt_on_error=0 report_signal_unsafe=0 history_size=4 exitcode=0")

        def once():
            p = subprocess.run([root + "/tsstress", ini, str(nthreads), str(ncalls)], capture_output=True, text=True, env=env, timeout=900, stdin=subprocess.DEVNULL)
            return races(p.stderr), p.returncode
        f1, rc1 = once()
        runs += 1
        if rc1 not in (0,):
            rep.violation("stress-crash:" + out, "%d threads x %d calls with output %s under ThreadSanitizer: the process ended with status %s" % (nthreads, ncalls, out, rc1), dict(output=out))
        if f1:
            f2, _ = once()                       # a race counts only if it shows again
            runs += 1
            for key in f1:
                if key in f2:
                    rep.violation("race:" + "+".join(key), "data race outside the repository lock (%d threads, output %s): %s <-> %s" % (nthreads, out, f1[key][0], f1[key][1]),
                                  dict(output=out, threads=nthreads, frames=f1[key]))
    # record integrity under free-running threads: records longer than a stdio / pipe buffer (9 KB) must still come out whole, one line per call
    pad = 9000
    # the third variant runs a filter chain that passes every call (long lists that are tokenised on every call, the caller's uid listed last)
    chain = 'filter_chain = "exclude_spawns_of:%s;only_uid:%s,0;exclude_uid:%s"\n' % (
        ",".join("p%02d" % i for i in range(30)), ",".join(str(1000 + i) for i in range(60)), ",".join(str(2000 + i) for i in range(60)))
    for out in ("stdout", "file", "file+filters"):
        log = os.path.join(root, "whole-%s.log" % out)
        ini = os.path.join(root, "whole-%s.ini" % out)
        open(ini, "w").write('[snoopy]\nmessage_format = "%%{filename} %%{cmdline}"\noutput = %s\ndatasource_message_max_length = 20000\nlog_message_max_length = 40000\n%s' % (
            "file:" + log if out.startswith("file") else "stdout", chain if out == "file+filters" else ""))
        for attempt in range(2 if tier == "quick" else 6):
            if os.path.exists(log):
                os.unlink(log)
            with open(log if out == "stdout" else os.devnull, "ab") as fo:
                p = subprocess.run([root + "/tsstress", ini, str(nthreads), str(ncalls), str(pad)], stdout=fo, stderr=subprocess.PIPE, text=True, timeout=900, stdin=subprocess.DEVNULL,
                                   env=dict(os.environ, TSAN_OPTIONS="halt_on_error=0 report_signal_unsafe=0 history_size=4 exitcode=0"))
            runs += 1
            lines = open(log, "rb").read().split(b"\n") if os.path.exists(log) else []
            if lines and lines[-1] == b"":
                lines.pop()
            want = {}
            for t in range(1, nthreads + 1):
                for k in range(ncalls):
                    want[b"/nonexistent/T%dC%d prog-T%d call-%d %s" % (t, k, t, k, bytes([97 + t % 26]) * pad)] = 0
            damaged = [l for l in lines if l not in want]
            for l in lines:
                if l in want:
                    want[l] += 1
            missing = [k for k, v in want.items() if v == 0]
            dup = [k for k, v in want.items() if v > 1]
            if damaged or missing or dup:
                rep.violation("stress-records:" + out, "%d threads x %d calls with %d-byte records to %s: %d damaged lines, %d records missing, %d duplicated (e.g. %r)" % (
                    nthreads, ncalls, pad + 40, out, len(damaged), len(missing), len(dup), (damaged or missing or dup)[0][:60] + b"..." + (damaged or missing or dup)[0][-30:]),
                    dict(output=out, threads=nthreads, calls=ncalls))
                break
    rep.cov["tsan_stress_runs"] = runs
    rep.cov["tsan_stress_threads_x_calls"] = [nthreads, ncalls]
    rep.assumptions.append("TSan stress: the repository mutex is hidden from the race detector (so it cannot order unrelated accesses) and reports with a racing frame in tsrm.c / util/list.c are ignored")
    return runs
