"""C13: registered names bind to their own implementation in every build (spec/Registry*.tla).
(1) The guard structure of the three registry sources is extracted (validated against `gcc -E`) into RegistryData.tla; TLC checks
    alignment for every subset of the filter/output switches, all single and pair switch-offs of the 38 data-source switches, and the
    position-wise lemma that covers all 2^N configurations at once.
(2) For enumerated configurations S the REAL registry translation units are compiled with a synthetic config.h and linked with
    recording stubs; a probe asks every registry for every name (and near-miss names) and reports which implementation ran."""
import json, os, random, re, shutil, subprocess
from concurrent.futures import ThreadPoolExecutor
from vlib import common as c

REG = {"ds": ("datasourceregistry.c", "snoopy_datasourceregistry", "snoopy_datasource_", ""),
       "flt": ("filterregistry.c", "snoopy_filterregistry", "snoopy_filter_", ""),
       "out": ("outputregistry.c", "snoopy_outputregistry", "snoopy_output_", "output")}


def extract(path, prefix, suffix):
    """-> (names entries, ptrs entries); entry = (guards tuple of (macro, polarity), item)"""
    names, ptrs, cur = [], [], None
    stack = []
    for raw in open(path, errors="replace"):
        line = raw.strip()
        m = re.match(r"#\s*(ifdef|ifndef|if|elif|else|endif)\b\s*(.*)", line)
        if m:
            d, rest = m.group(1), m.group(2).strip()
            if d == "ifdef":
                stack.append((rest.split()[0], True))
            elif d == "ifndef":
                stack.append((rest.split()[0], False))
            elif d == "if":
                mm = re.match(r"defined\s*\(?\s*(\w+)\s*\)?$", rest)
                stack.append((mm.group(1), True) if mm else ("EXPR:" + rest, True))
            elif d == "else":
                mac, pol = stack.pop()
                stack.append((mac, not pol))
            elif d == "endif":
                if stack:
                    stack.pop()
            continue
        if line.startswith("//"):
            continue
        if re.search(r"_names\s*\[\s*\]\s*=\s*\{", line):
            cur = names
            continue
        if re.search(r"_ptrs\s*\[\s*\]\s*\)?.*=\s*\{", line):
            cur = ptrs
            continue
        if cur is not None and line.startswith("};"):
            cur = None
            continue
        if cur is names:
            for s in re.findall(r'"([^"]*)"\s*,', line):
                cur.append((tuple(stack), s))
        elif cur is ptrs:
            line2 = re.sub(r"/\*.*?\*/", "", line)
            for s in re.findall(r"\b(\w+)\s*,", line2):
                cur.append((tuple(stack), s))
    return names, ptrs


def tla_entry(g, item, own=None):
    gs = "{" + ", ".join('<<"%s", %s>>' % (m, "TRUE" if p else "FALSE") for m, p in g) + "}"
    return '[g |-> %s, item |-> "%s", own |-> "%s"]' % (gs, item, own if own is not None else item)


def write_data(srcdir, outpath):
    regs, feats = {}, set()
    for r, (fn, api, pre, suf) in REG.items():
        names, ptrs = extract(os.path.join(srcdir, "src", fn), pre, suf)
        regs[r] = (names, ptrs)
        for g, _ in names + ptrs:
            for m, _p in g:
                feats.add(m)
    with open(outpath, "w") as f:
        f.write("---- MODULE RegistryData ----\n(* generated from the registry sources of the working tree by checks/c13.py *)\n")
        f.write("Features == {%s}\n" % ", ".join('"%s"' % x for x in sorted(feats)))
        f.write("Regs == [\n")
        parts = []
        for r, (names, ptrs) in regs.items():
            pre, suf = REG[r][2], REG[r][3]
            ns = ",\n      ".join(tla_entry(g, n, (pre + n + suf) if n else "") for g, n in names)
            ps = ",\n      ".join(tla_entry(g, p) for g, p in ptrs)
            parts.append("  %s |-> [names |-> <<\n      %s >>,\n    ptrs |-> <<\n      %s >>]" % (r, ns, ps))
        f.write(",\n".join(parts) + " ]\n====\n")
    return regs, sorted(feats)


def gcc_e_tables(srcdir, cfgdir, fn):
    """the two arrays as the preprocessor really sees them (validation of the extractor)"""
    p = subprocess.run(["gcc", "-E", "-P", "-I" + cfgdir, "-I" + os.path.join(srcdir, "src"), "-I" + srcdir, os.path.join(srcdir, "src", fn)],
                       capture_output=True, text=True)
    if p.returncode:
        raise c.MachineryError("gcc -E failed on %s: %s" % (fn, p.stderr[-500:]))
    txt = p.stdout
    mn = re.search(r"_names\s*\[\s*\]\s*=\s*\{(.*?)\};", txt, re.S)
    mp = re.search(r"_ptrs\s*\[\s*\]\s*\).*?=\s*\{(.*?)\};", txt, re.S)
    return re.findall(r'"([^"]*)"', mn.group(1)), re.findall(r"\b(\w+)\b", mp.group(1))


STUB_PROTO = {"ds": "int %s(char * const r, size_t n, char const * const a) { (void) n; (void) a; (void) r; last_called = \"%s\"; return 1; }",
              "flt": "int %s(char const * const a) { (void) a; last_called = \"%s\"; return 1; }",
              "out": "int %s(char const * const m, char const * const a) { (void) m; (void) a; last_called = \"%s\"; return 1; }"}


def make_probe_sources(work, regs, universe):
    stubs = ["#include <stddef.h>", "const char *last_called = \"\";", "static char cfgblob[4096];", "void *snoopy_configuration_get(void) { return cfgblob; }",
             "void snoopy_error_handler(char const * const m) { (void) m; }"]
    for r, (names, ptrs) in regs.items():
        for sym in sorted({p for _, p in ptrs}):
            stubs.append(STUB_PROTO[r] % (sym, sym))
    open(os.path.join(work, "stubs.c"), "w").write("\n".join(stubs) + "\n")
    probe = ['#include <stdio.h>', '#include <stddef.h>', 'extern const char *last_called;']
    for r, (fn, api, pre, suf) in REG.items():
        probe.append("int %s_doesNameExist(char const * const n); int %s_getIdFromName(char const * const n); int %s_getCount(void); char *%s_getName(int i);" % (api, api, api, api))
    probe.append("int snoopy_datasourceregistry_callByName(char const * const n, char * const r, size_t s, char const * const a);")
    probe.append("int snoopy_filterregistry_callByName(char const * const n, char const * const a);")
    probe.append("int snoopy_outputregistry_callByName(char const * const n, char const * const m, char const * const a);")
    probe.append("static const char *U[] = {%s, NULL};" % ", ".join('"%s"' % u for u in universe))
    probe.append('''int main(void) { char buf[64];
  for (int reg = 0; reg < 3; reg++) for (int i = 0; U[i]; i++) { const char *n = U[i]; int ex, id; last_called = "";
    if (reg == 0) { ex = snoopy_datasourceregistry_doesNameExist(n); id = snoopy_datasourceregistry_getIdFromName(n); if (ex) snoopy_datasourceregistry_callByName(n, buf, sizeof buf, ""); }
    else if (reg == 1) { ex = snoopy_filterregistry_doesNameExist(n); id = snoopy_filterregistry_getIdFromName(n); if (ex) snoopy_filterregistry_callByName(n, ""); }
    else { ex = snoopy_outputregistry_doesNameExist(n); id = snoopy_outputregistry_getIdFromName(n); if (ex) snoopy_outputregistry_callByName(n, "m", ""); }
    if (ex || id != -1) printf("%d %s %d %d %s\\n", reg, n, ex, id, last_called); }
  printf("COUNTS %d %d %d\\n", snoopy_datasourceregistry_getCount(), snoopy_filterregistry_getCount(), snoopy_outputregistry_getCount());
  for (int i = 0; i < snoopy_datasourceregistry_getCount(); i++) printf("NAME 0 %d %s\\n", i, snoopy_datasourceregistry_getName(i));
  for (int i = 0; i < snoopy_filterregistry_getCount(); i++) printf("NAME 1 %d %s\\n", i, snoopy_filterregistry_getName(i));
  for (int i = 0; i < snoopy_outputregistry_getCount(); i++) printf("NAME 2 %d %s\\n", i, snoopy_outputregistry_getName(i));
  return 0; }''')
    open(os.path.join(work, "probe.c"), "w").write("\n".join(probe) + "\n")


def config_h(base_text, S, path):
    keep = [l for l in base_text.splitlines() if not re.search(r"SNOOPY_CONF_(DATASOURCE|FILTER|OUTPUT)_ENABLED_|SNOOPY_CONF_THREAD_SAFETY_ENABLED", l)]
    with open(path, "w") as f:
        f.write("\n".join(keep) + "\n" + "".join("#define %s 1\n" % m for m in sorted(S)))


def run(tier, seed, replay=None):
    rep = c.Reporter("C13", tier, seed, "model_checking")
    rnd = random.Random(seed)
    b = c.build("prod", tag="C13")
    src = b["src"]
    work = os.path.join(b["root"], "c13")
    os.makedirs(work)
    for f in ("Registry.tla", "RegistryMC.tla"):
        shutil.copy(os.path.join(c.SPEC, f), work)
    regs, feats = write_data(src, os.path.join(work, "RegistryData.tla"))
    rep.cov["features"] = len(feats)
    rep.cov["entries"] = {r: [len(n), len(p)] for r, (n, p) in regs.items()}
    odd = [m for m in feats if m.startswith("EXPR:")]
    if odd:
        rep.assumptions.append("guards that are not simple defined() tests were treated as opaque switches: %r" % odd)
    base_cfg = open(os.path.join(src, "config.h")).read()
    # --- model checking on the extracted tables
    def cfg(name, configs, invs):
        open(os.path.join(work, name), "w").write("SPECIFICATION Spec\nCONSTANTS\n  Configs <- %s\nINVARIANTS %s\nCHECK_DEADLOCK FALSE\n" % (configs, invs))
        return name
    r_al = c.run_tlc("RegistryMC.tla", cfg("MC.cfg", "MCConfigs", "AllAligned"), cwd=work, heap="16g", expect_violation=None)
    rep.tlc(r_al)
    if r_al.violated:
        # here a violated invariant is not a modelling error: the tables ARE the code. TLC's counterexample is the configuration.
        state = re.search(r"S = (\{[^\n]*\})", r_al.out)
        defined = set(re.findall(r'"(\w+)"', state.group(1))) if state else set()
        off = sorted(set(feats) - defined)
        rep.violation("tables:misaligned:" + ",".join(x.split("ENABLED_")[-1] for x in off[:3]),
                      "names and implementations of a registry are not aligned in the build configuration with these switches off: %s" % (off[:10],),
                      dict(switched_off=off, tlc_output=r_al.out[-1500:]))
    r_lem = c.run_tlc("RegistryMC.tla", cfg("Lemma.cfg", "OnlyAllOn", "LemmaHypothesis"), cwd=work, expect_violation=None)
    rep.cov["all_configurations_lemma_holds"] = not r_lem.violated
    if r_lem.violated:
        rep.assumptions.append("the position-wise guard lemma does not hold on the extracted tables: 'all 2^N configurations' is NOT established, "
                               "only the enumerated configurations are covered")
    # --- configurations to build: all-on, all-off, each single switch off, random ones
    extra = []
    for k in range(40 if tier == "quick" else 400):
        p_off = rnd.choice([0.05, 0.2, 0.5, 0.8])
        extra.append(sorted(m for m in feats if rnd.random() > p_off))
    ts = [m for m in feats if "THREAD_SAFETY" in m]
    for m in ts:
        extra.append(sorted(set(feats) - {m}))
        extra.append(sorted(set(feats) - {m, "SNOOPY_CONF_DATASOURCE_ENABLED_snoopy_threads"}))
    cfile = os.path.join(work, "configs.ndjson")
    with open(cfile, "w") as f:
        for e in extra:
            f.write(json.dumps(e) + "\n")
    g = c.run_tlc("RegistryMC.tla", cfg("Gen.cfg", "GenConfigs", "Dump"), cwd=work, env={"CONFIGS_FILE": cfile}, heap="8g")
    rep.tlc(g)
    cases = [json.loads(x) for x in g.printed]
    # universe of names to ask for: every registered name + near misses
    allnames = sorted({n for r in regs.values() for _, n in r[0] if n})
    universe = list(allnames)
    for n in allnames:
        for v in (n[:-1], n + "x", n.upper(), n[:max(2, len(n) // 2)]):
            if v and v not in allnames and v not in universe:
                universe.append(v)
    make_probe_sources(work, regs, universe)
    # validate the extractor against the preprocessor for the default and the empty configuration
    for S in (set(feats), set()):
        d = os.path.join(work, "gccE")
        os.makedirs(d, exist_ok=True)
        config_h(base_cfg, S, os.path.join(d, "config.h"))
        for r, (fn, api, pre, suf) in REG.items():
            en, ep = gcc_e_tables(src, d, fn)
            xn = [n for g_, n in regs[r][0] if all((m in S) == p for m, p in g_)]
            xp = [p_ for g_, p_ in regs[r][1] if all((m in S) == p for m, p in g_)]
            if en != xn or ep != xp:
                raise c.MachineryError("guard extractor disagrees with gcc -E on %s (S %s): %r vs %r" % (fn, "all" if S else "none", (en, ep), (xn, xp)))

    def one(k):
        case = cases[k]
        S = set(case["S"])
        d = os.path.join(work, "b%d" % k)
        os.makedirs(d)
        config_h(base_cfg, S, os.path.join(d, "config.h"))
        objs = []
        for fn in ["genericregistry.c"] + [v[0] for v in REG.values()]:
            o = os.path.join(d, fn[:-2] + ".o")
            p = subprocess.run(["gcc", "-c", "-O0", "-w", "-I" + d, "-I" + os.path.join(src, "src"), "-I" + src, "-o", o, os.path.join(src, "src", fn)], capture_output=True, text=True)
            if p.returncode:
                return k, None, "registry source does not compile in this configuration: " + p.stderr[-300:]
            objs.append(o)
        exe = os.path.join(d, "probe")
        p = subprocess.run(["gcc", "-O0", "-w", "-o", exe, os.path.join(work, "probe.c"), os.path.join(work, "stubs.c")] + objs, capture_output=True, text=True)
        if p.returncode:
            return k, None, "probe does not link: " + p.stderr[-300:]
        try:
            r = subprocess.run([exe], capture_output=True, text=True, timeout=20)
        except subprocess.TimeoutExpired:
            return k, None, "probe hangs"
        out = r.stdout if r.returncode == 0 else None
        shutil.rmtree(d, ignore_errors=True)
        return k, out, (None if r.returncode == 0 else "probe died with status %d" % r.returncode)

    with ThreadPoolExecutor(max_workers=c.NCPU) as ex:
        results = list(ex.map(one, range(len(cases))))
    nontriv = 0
    for k, out, err in results:
        case = cases[k]
        S = set(case["S"])
        off = sorted(set(feats) - S)
        if 0 < len(off) < len(feats):
            nontriv += 1
        label = "all-on" if not off else "all-off" if not S else "off:" + ",".join(x.split("ENABLED_")[-1] for x in off[:4]) + ("..." if len(off) > 4 else "")
        probs = []
        if err:
            probs.append(("build", err))
        else:
            got = {0: {}, 1: {}, 2: {}}
            listed = {0: [], 1: [], 2: []}
            for line in out.splitlines():
                p_ = line.split(" ")
                if p_[0] == "NAME":
                    listed[int(p_[1])].append(p_[3] if len(p_) > 3 else "")
                elif p_[0] != "COUNTS":
                    got[int(p_[0])][p_[1]] = (int(p_[2]), int(p_[3]), p_[4] if len(p_) > 4 else "")
            for ri, r in enumerate(("ds", "flt", "out")):
                exp = {e["name"]: e["own"] for e in case["names"][r]}
                for n, (ex_, id_, called) in got[ri].items():
                    if n not in exp:
                        probs.append(("phantom-name:" + r, "%s name '%s' is not available in this configuration but resolves (id %d, runs %s)" % (r, n, id_, called)))
                    elif called != exp[n]:
                        probs.append(("wrong-impl:" + r, "%s name '%s' runs %s instead of %s" % (r, n, called, exp[n])))
                for n in exp:
                    if n not in got[ri]:
                        probs.append(("missing-name:" + r, "%s name '%s' should be available but is unknown" % (r, n)))
                if listed[ri] != [e["name"] for e in case["names"][r]]:
                    probs.append(("listing:" + r, "%s registry lists %r, expected %r" % (r, listed[ri][:8], [e["name"] for e in case["names"][r]][:8])))
        for sig, what in probs[:3]:
            rep.violation(sig, "configuration %s: %s" % (label, what), dict(switched_off=off, detail=what))
    rep.cov["traces_validated_against_impl"] = len(cases)
    rep.cov["evaluations"] = len(cases)
    rep.cov["distinct_nontrivial"] = nontriv
    rep.cov["rule"] = ("configuration = set of defined feature switches (all-on, all-off, each single switch off, thread safety x snoopy_threads, random subsets) "
                       "generated/evaluated by TLC with the expected name -> implementation map; the real registry translation units are compiled under a "
                       "synthetic config.h, linked with recording stubs and asked for every name and near-miss name; non-trivial = some but not all switches off")
    rep.sample(dict(switched_off=sorted(set(feats) - set(cases[len(cases) // 2]["S"]))[:6], expected_filters=[e["name"] for e in cases[len(cases) // 2]["names"]["flt"]]))
    rep.assumptions += ["a name's own implementation is the symbol <registry prefix><name><suffix> (snoopy_datasource_X, snoopy_filter_X, snoopy_output_Xoutput)",
                        "all 2^N configurations are covered by the position-wise lemma (LemmaHypothesis) checked on the extracted tables; builds are sampled",
                        "configure.ac's mapping from --disable-X options to the macros is not examined"]
    return rep.finish()
