"""C05: message format expansion is exact and length-bounded (spec/MessageFormat.tla).
TLC model-checks the scanner model against the contract for five (D, M) limit pairs and generates every format of
<= 2 (quick) / <= 3 tokens over boundary lengths with the contract's piece lists; the harness realises each token with
deterministic data sources and position-dependent byte patterns, runs it through the production wrapper (config line ->
message_format / syslog_ident / output path template) and compares the record byte for byte."""
import json, os, random
from concurrent.futures import ThreadPoolExecutor
import subprocess
from vlib import common as c, drv
from checks import callflow as cf

LIT = b"abcdefghijklmnopqrstuvwxyzABCDEFGHIJKLMNOPQRSTUVWXYZ0123456789:}{x%"
VAL = b"abcdefghijklmnopqrstuvwxyz0123456789 _-+=/.,:;"
ARG = b"abcdefghijklmnopqrstuvwxyzABCDEFGHIJKLMNOPQRSTUVWXYZ0123456789:._-"
E = {"e_open": b"[ERROR: Data source '", "e_notfound": b"' not found.]", "e_failed": b"' failed with the following error message: '",
     "e_close": b"']", "e_unterminated": b"[ERROR: Closing data source tag ('}') not found.]"}
FAILMSG = b"Artificial datasource failure triggered"


def pat(alpha, seed, n):
    k = len(alpha)
    off = (seed * 7) % k
    rep = (alpha[off:] + alpha[:off]) * (n // k + 2)
    return rep[:n]


class Case:
    """Concrete realisation of one TLC-generated format."""

    def __init__(self, h, pathsafe=False):
        self.h = h
        val = VAL.replace(b"/", b"").replace(b":", b"").replace(b";", b"") if pathsafe else VAL
        arg = ARG.replace(b":", b"") if pathsafe else ARG
        self.pathsafe = pathsafe
        self.src = b""
        self.env = []          # (name, len, seed)
        self.tokbytes = {}     # token index -> dict(sub -> bytes)
        lit = LIT.replace(b":", b"").replace(b"%", b"").replace(b"{", b"").replace(b"}", b"") if pathsafe else LIT
        for i, t in enumerate(h["fmt"], start=1):
            if t["t"] == "lit":
                b = pat(lit, i, t["n"])
                if b.endswith(b"%") and i < len(h["fmt"]):
                    b = b[:-1] + b"_"          # "%%{" would still parse, but keep the literal boundary unambiguous
                b = b.replace(b"%{", b"%_")
                self.src += b
                self.tokbytes[i] = {"text": b}
            elif t["t"] == "ds" and t["kind"] == "env":
                name = b"V%d" % i
                self.src += b"%{env:" + name + b"}"
                if pathsafe:
                    self.envset = getattr(self, "envset", []) + [(name, pat(val, i, t["out"]))]
                    self.tokbytes[i] = {"out": pat(val, i, t["out"])}
                else:
                    self.env.append((name, t["out"], i))
                    self.tokbytes[i] = {"out": pat(VAL, i, t["out"])}
            elif t["t"] == "ds":
                a = pat(arg, i, t["out"])
                self.src += b"%{snoopy_literal:" + a + b"}"
                self.tokbytes[i] = {"out": a}
            elif t["t"] == "fail":
                self.src += b"%{failure}"
                self.tokbytes[i] = {"name": b"failure", "out": FAILMSG}
            elif t["t"] == "unknown":
                name = (b"zz" + pat(b"qwrtypsdfg", i, 1000))[:t["name"]]
                extra = t["tag"] - t["name"]
                self.src += b"%{" + name + (b":" + pat(ARG.replace(b":", b""), i, extra - 1) if extra > 0 else b"") + b"}"
                self.tokbytes[i] = {"name": name}
            elif t["t"] == "unterminated":
                self.src += b"%{" + pat(b"unterminatedtag", i, t["n"])
                self.tokbytes[i] = {}

    def piece_bytes(self, p):
        sub = p["sub"]
        if sub in E:
            return E[sub]
        return self.tokbytes[p["tok"]][sub][:p["len"]]

    def alternatives(self):
        alts = []
        for key in ("stop", "cont"):
            ps = [self.piece_bytes(p) for p in self.h[key]]
            if ps not in alts:
                alts.append(ps)
        return alts

    def verdict(self, obs, M):
        """None if acceptable, else a description."""
        if len(obs) > M:
            return "message of %d bytes exceeds the limit %d" % (len(obs), M)
        alts = self.alternatives()
        for ps in alts:
            full = b"".join(ps)
            if len(full) <= M:
                if obs == full:
                    return None
            elif cf.is_selection(obs, ps):
                return None
        full = b"".join(alts[-1])
        # locate first difference for the report
        k = 0
        while k < min(len(obs), len(full)) and obs[k] == full[k]:
            k += 1
        return "got %d bytes, full expansion has %d bytes (limit %d), first difference at offset %d: got %r, expected %r" % (
            len(obs), len(full), M, k, obs[max(0, k - 10):k + 20], full[max(0, k - 10):k + 20])


class DirCase:
    """output = file:%{env:LOGDIR}/r.log where LOGDIR is an existing directory whose name has exactly h.fmt[1].out bytes; dsmax = the configured
    datasource_message_max_length (None = default), which must not matter for a path template"""

    def __init__(self, h, dsmax):
        self.h, self.dsmax = h, dsmax
        self.src = b"%{env:LOGDIR}/r.log"
        self.env = []

    def verdict(self, obs, M):
        return None                          # observed_message() has already compared the directory listing

    def place(self, ctx, label):
        n = self.h["fmt"][0]["out"]
        base = os.path.join(ctx.w, "T", label).encode()
        v = base
        while len(v) < n:
            room = n - len(v) - 1
            v += b"/" + b"d" * min(200, room) if room >= 1 else b"/"
            if room < 1:
                break
        if len(v) != n:                      # cannot hit the length exactly with this base (needs n >= len(base) + 2)
            return None
        self.dirvalue = v
        self.envset = [(b"LOGDIR", v)]
        return v


def family_ini(fam, case, D, M, ctx):
    if fam == "pathdir":
        return (b'[snoopy]\nmessage_format = "m"\noutput = file:' + case.src + b"\n" +
                (b"datasource_message_max_length = %d\n" % case.dsmax if case.dsmax else b""))
    if fam == "message":
        return (b'[snoopy]\nmessage_format = "' + case.src + b'"\noutput = file:' + ctx.log +
                b"\ndatasource_message_max_length = %d\nlog_message_max_length = %d\n" % (D, M))
    if fam == "ident":
        return b'[snoopy]\nmessage_format = "m"\noutput = devlog\nsyslog_ident = "' + case.src + b'"\n'
    return b'[snoopy]\nmessage_format = "m"\noutput = file:' + os.path.join(ctx.w, "T").encode() + b"/" + case.src + b"\n"


def run_cases(b, fam, cases, workdir):
    workers = c.NCPU
    batches = [cases[i::workers] for i in range(workers)]
    batches = [x for x in batches if x]
    ctxs = [cf.Ctx(b, os.path.join(workdir, "w%d" % i)) for i in range(len(batches))]

    def one(i):
        ctx = ctxs[i]
        os.makedirs(os.path.join(ctx.w, "T"), exist_ok=True)
        s = drv.Script()
        s.add("sinkfile", "file", drv.hx(ctx.log)).add("sinkdevlog", "devlog", drv.hx(ctx.devlog))
        s.path(ctx.helper).argv([b"prog", b"arg"]).envp([b"A=1"]).add("ret", -1, 2).add("snap", 0)
        for label, case, D, M in batches[i]:
            if fam == "pathdir" and case.place(ctx, label) is None:
                continue
            s.add("emit", "item:" + label).add("fork").add("ini", drv.hx(family_ini(fam, case, D, M, ctx)))
            for name, ln, seed in case.env:
                s.add("envpat", drv.hx(name), ln, seed)
            if fam == "pathdir":
                s.add("mkdirp", drv.hx(case.dirvalue))
            for name, value in getattr(case, "envset", []):
                s.add("envset", drv.hx(name), drv.hx(value))
            if fam == "path":
                s.add("cleardir", drv.hx(os.path.join(ctx.w, "T").encode()))
            s.call("execve", label)
            if fam == "path":
                s.add("listdir", drv.hx(os.path.join(ctx.w, "T").encode()))
            if fam == "pathdir":
                s.add("listdir", drv.hx(case.dirvalue))
            s.add("endfork")
        sp, op = os.path.join(ctx.w, "script"), os.path.join(ctx.w, "out")
        open(sp, "w").write(s.text())
        if os.path.exists(op):
            os.unlink(op)
        env = {"PATH": "/usr/bin:/bin", "LD_PRELOAD": cf.preload(b), "XDRV_INI": os.path.join(ctx.etc, "snoopy.ini"), "TZ": "UTC"}
        env.update(cf.SAN_ENV)
        try:
            subprocess.run([os.path.join(c.BUILD, "xdrv"), sp, op], env=env, capture_output=True, timeout=1500, cwd=ctx.w, stdin=subprocess.DEVNULL)
        except subprocess.TimeoutExpired:
            pass
        res, cur = {}, None
        if os.path.exists(op):
            for line in open(op, errors="replace"):
                try:
                    e = json.loads(line)
                except ValueError:
                    continue
                if e["ev"] == "mark" and e["label"].startswith("item:"):
                    cur = e["label"][5:]
                    res[cur] = {"ctx": ctx}
                elif cur and e["ev"] in ("at", "ret") and e.get("label") == cur:
                    res[cur].setdefault(e["ev"], []).append(e)
                elif cur and e["ev"] == "dir":
                    res[cur]["dir"] = e
                elif cur and e["ev"] == "child":
                    res[cur]["child"] = e
        return res

    with ThreadPoolExecutor(max_workers=len(batches)) as ex:
        outs = list(ex.map(one, range(len(batches))))
    obs = {}
    for o in outs:
        obs.update(o)
    return obs


def observed_message(fam, case, o):
    """-> (bytes or None, problem or None)"""
    if not o or "at" not in o:
        sig = o.get("child", {}).get("signal") if o else None
        return None, ("the calling process died with signal %s while formatting" % sig) if sig else "the real exec was never reached"
    at = o["at"][0]
    if fam == "message":
        recs = cf.frame_records("file", at["sinks"].get("file"))
        if len(recs) > 1:
            return None, "%d records instead of one" % len(recs)
        if not recs:
            return b"", None
        return (recs[0][:-1] if recs[0].endswith(b"\n") else recs[0]), None
    if fam == "ident":
        d = [bytes.fromhex(x) for x in at["sinks"].get("devlog", [])]
        if len(d) != 1:
            return None, "%d datagrams instead of one" % len(d)
        suffix = b"[%d]: m" % at["pid"]
        if not d[0].startswith(b"<86>") or not d[0].endswith(suffix):
            return None, "datagram %r does not have the shape <86>ident[pid]: m" % d[0][:80]
        return d[0][4:len(d[0]) - len(suffix)], None
    if fam == "pathdir":
        d = o.get("dir")
        files = [(bytes.fromhex(n), bytes.fromhex(cont)) for n, cont in d["files"]] if d else []
        if files != [(b"r.log", b"m\n")]:
            return None, "the directory named by the template (%d bytes) holds %r instead of the one record file r.log" % (len(case.dirvalue), [(f[0][:20], f[1][:10]) for f in files])
        return case.dirvalue + b"/r.log", None
    # path template: the file named by the expansion must exist (and hold the record "m")
    d = o.get("dir")
    if d is None:
        return None, "directory listing missing"
    files = [(bytes.fromhex(n), bytes.fromhex(cont)) for n, cont in d["files"]]
    if len(files) > 1:
        return None, "%d files were created instead of one: %r" % (len(files), [f[0][:40] for f in files])
    if not files:
        return b"", None
    if files[0][1] != b"m\n":
        return None, "the file named by the template holds %r instead of the record" % files[0][1][:40]
    return files[0][0], None


def run(tier, seed, replay=None):
    rep = c.Reporter("C05", tier, seed, "model_checking")
    rnd = random.Random(seed)
    b = c.build("prod", tag="C05", cwd_etc=True)
    for k in "abcde":
        rep.tlc(c.run_tlc("MessageFormatMC.tla", "MessageFormatMC_%s.cfg" % k))
    if tier == "thorough":
        rep.tlc(c.run_tlc("MessageFormatMC.tla", "MessageFormatMC3.cfg", heap="16g"))
    guards = {}
    for d in ("DefAppend", "DefDs", "DefLit", "DefTag"):
        guards[d] = c.run_tlc("MessageFormatMC.tla", "MessageFormatDefect_%s.cfg" % d, expect_violation=True).violated
    rep.cov["vacuity_guards"] = guards
    total, nontriv = 0, set()
    fams = []
    for k in "abcde":
        depth = 3 if (tier == "thorough" and k in "abc") else 2
        g = c.run_tlc("MessageFormatMC.tla", "MessageFormatGen%d_%s.cfg" % (depth, k), heap="16g")
        rep.tlc(g)
        hs = [json.loads(x) for x in g.printed]
        if k == "e":
            rnd.shuffle(hs)
            hs = hs[:150 if tier == "quick" else 600]      # megabyte-sized values: sample
        if tier == "thorough" and depth == 3 and len(hs) > 30000:
            rnd.shuffle(hs)
            hs = hs[:30000]
        fams.append(("message", k, hs))
        if k == "a":
            fams.append(("ident", k, hs))                # the syslog ident uses the same expansion with D = M = 255
    gp = c.run_tlc("MessageFormatMC.tla", "MessageFormatGenPath.cfg")
    rep.tlc(gp)
    fams.append(("path", "p", [json.loads(x) for x in gp.printed]))
    gd = c.run_tlc("MessageFormatMC.tla", "MessageFormatGenPathDir.cfg")
    rep.tlc(gd)
    fams.append(("pathdir", "d", [h for h in (json.loads(x) for x in gd.printed) if [t["t"] for t in h["fmt"]] == ["ds", "lit"]]))
    for fam, k, hs in fams:
        cases = []
        if fam == "pathdir":
            for i, h in enumerate(hs):
                for j, dsmax in enumerate((None, 255, 1048575)):
                    cases.append(("d%d_%d" % (i, j), DirCase(h, dsmax), h["D"], h["M"]))
            hs = []
        for i, h in enumerate(hs):
            cs = Case(h, pathsafe=(fam == "path"))
            if fam == "path" and (sum(p_["len"] for p_ in h["cont"]) > 250 or any(t["t"] == "unknown" and False for t in h["fmt"])):
                continue                                          # a file name cannot exceed NAME_MAX
            if b'"' in cs.src or len(cs.src) > 995:
                continue
            cases.append(("%s%s%d" % (fam[0], k, i), cs, h["D"], h["M"]))
        c.log("[C05] %s family %s: replaying %d formats" % (fam, k, len(cases)))
        obs = run_cases(b, fam, cases, os.path.join(b["root"], "run-%s-%s" % (fam, k)))
        for label, cs, D, M in cases:
            total += 1
            o = obs.get(label)
            msg, prob = observed_message(fam, cs, o)
            if prob is None and msg is not None:
                prob = cs.verdict(msg, M)
            if len(cs.h["fmt"]) > 1 or cs.h["fmt"][0]["t"] != "lit":
                nontriv.add(label)
            if prob:
                # re-run this single case in a fresh process
                o2 = run_cases(b, fam, [(label, cs, D, M)], os.path.join(b["root"], "confirm"))
                m2, p2 = observed_message(fam, cs, o2.get(label))
                if p2 is None and m2 is not None:
                    p2 = cs.verdict(m2, M)
                if not p2:
                    rep.assumptions.append("non-repeatable observation ignored: " + prob[:100])
                    continue
                shape = "+".join(t["t"] + (":" + t.get("kind", "") if t["t"] == "ds" else "") for t in cs.h["fmt"])
                rep.violation("%s:%s" % (fam, shape), "%s template, D=%d M=%d, format %r...: %s" % (fam, D, M, cs.src[:80], prob),
                              dict(family=fam, D=D, M=M, tokens=cs.h["fmt"], source=repr(cs.src[:300]), source_len=len(cs.src),
                                   contract_pieces_stop=cs.h["stop"], contract_pieces_continue=cs.h["cont"], observed=repr((msg or b"")[:300])))
        if fam == "message" and k == "b":
            for h in hs[:3]:
                rep.sample(dict(tokens=h["fmt"], D=h["D"], M=h["M"], pieces=h["cont"]))
    # the cmdline data source's own contribution at the boundaries of D (spec/Cmdline.tla)
    from checks import c06
    total += c06.boundary_family(rep, b, tier)
    rep.cov["traces_validated_against_impl"] = total
    rep.cov["evaluations"] = total
    rep.cov["distinct_nontrivial"] = len(nontriv)
    rep.cov["rule"] = ("case = format of <= %d tokens over MessageFormatMC!TokensFull (literal / env / snoopy_literal / failure / unknown / "
                       "unterminated with lengths at the boundaries of D and M) generated by TLC with the contract's piece list, for "
                       "(D,M) in {(255,255),(255,300),(300,255),(2047,16383),(1048575,1048575)} plus the syslog-ident instantiation; "
                       "non-trivial = more than a single literal" % (3 if tier == "thorough" else 2))
    rep.assumptions += ["formats travel through one snoopy.ini line (<= 1023 bytes): longer sources are not generated",
                        "data-source outputs are realised by %{env:Vk} / %{snoopy_literal:...} with position-dependent byte patterns",
                        "output-path templates: every format of <= 2 short tokens whose expansion fits NAME_MAX (a longer file name cannot exist); boundary lengths of PATH_MAX are not reachable"]
    return rep.finish()
