"""C15: exclude_spawns_of drops exactly the descendants of listed programs (spec/SpawnsOf*.tla).
TLC enumerates (ancestor chain, own name, list) cases with the contract's verdict; each chain is built for real with
fork + prctl(PR_SET_NAME) inside a private pid namespace (so the top of the chain is pid 1 and no foreign ancestor can
interfere), and the bottom process calls through the production wrapper with the filter configured."""
import json, os, random, subprocess
from concurrent.futures import ThreadPoolExecutor
from vlib import common as c, drv
from checks import callflow as cf, filters


def run_cases(b, cases, workdir):
    """cases: (label, chain(list of names parent-first), self name, list items) -> {label: dict(logged, n_real, signal, errors)}"""
    workers = c.NCPU
    batches = [cases[i::workers] for i in range(workers)]
    batches = [x for x in batches if x]
    ctxs = [cf.Ctx(b, os.path.join(workdir, "w%d" % i)) for i in range(len(batches))]
    can_ns = subprocess.run(["unshare", "-p", "-f", "--mount-proc", "true"], capture_output=True).returncode == 0

    def one(i):
        ctx = ctxs[i]
        filters.open_tree(ctx.w, b["root"])
        os.chmod(ctx.w, 0o777)
        open(ctx.log, "wb").close()
        os.chmod(ctx.log, 0o666)
        s = drv.Script().add("childtimeout", 10)
        s.add("sinkfile", "file", drv.hx(ctx.log)).add("sinkstd").add("sinkdevlog", "devlog", drv.hx(ctx.devlog))
        s.path(ctx.helper).argv([b"prog", b"x"]).envp([b"A=1"]).add("ret", -1, 2).add("snap", 0)
        for label, chain, selfname, items, unread in batches[i]:
            ini = b'[snoopy]\nmessage_format = "%{cmdline}"\noutput = file:' + ctx.log + b'\nfilter_chain = "exclude_spawns_of:' + ",".join(items).encode() + b'"\n'
            s.add("emit", "item:" + label).add("ini", drv.hx(ini)).add("name", drv.hx(chain[-1].encode()) or "-")
            # positions count from the parent (1) to the top (len(chain)); with unread = u > 0 the ancestors at positions >= u stay root-owned,
            # the ones below u and the caller itself run as uid 4242 (dumpable again after the uid switch): under hidepid=2 the caller can then
            # read exactly the positions below u
            drop_priv = ["gids 4243 4243 4243", "nogroups", "ids 4242 4242 4242", "dumpable"]
            switched = False
            for pos in range(len(chain) - 1, 0, -1):
                s.add("fork")
                if unread and pos < unread and not switched:
                    for cmd_ in drop_priv:
                        s.add(cmd_)
                    switched = True
                s.add("name", drv.hx(chain[pos - 1].encode()) or "-")
            # half of the cases: an earlier call of the same process saw a DIFFERENT ancestry (the parent carried another name, one that flips the
            # verdict); the parent then takes its real name and the measured call must decide afresh
            hist = sum(label.encode()) % 2 == 1 and not unread
            listed = [x for x in items if x and len(x) <= 15]
            alt = ("zz-alt" if chain[0] in items else (listed[0] if listed else None)) if hist else None
            if alt:
                s.add("name", drv.hx(alt.encode()))
            s.add("fork")
            if unread and not switched:
                for cmd_ in drop_priv:
                    s.add(cmd_)
            s.add("name", drv.hx(selfname.encode()))
            if sum(label.encode()) % 3 == 0:
                s.add("stdin", "closed")                 # callers without descriptor 0: what the filter opens gets number 0
            if alt:
                s.add("quiet", 1).call("execve", "earlier").add("quiet", 0).add("drain", "earlier:" + label).add("renameparent", drv.hx(chain[0].encode()) or "-")
            s.call("execve", label).add("endfork")
            for _ in chain[:-1]:
                s.add("endfork")
            s.add("drain", "post:" + label)
        sp, op = os.path.join(ctx.w, "script"), os.path.join(ctx.w, "out")
        open(sp, "w").write(s.text())
        if os.path.exists(op):
            os.unlink(op)
        inner = ["env", "LD_PRELOAD=" + b["lib"] + ":" + os.path.join(c.BUILD, "librec.so"), "XDRV_INI=" + os.path.join(ctx.etc, "snoopy.ini"),
                 os.path.join(c.BUILD, "xdrv"), sp, op]
        if can_ns:
            import shlex
            cmd = ["unshare", "-p", "-f", "--kill-child", "--mount-proc", "sh", "-c", "mount -o remount,hidepid=2 /proc 2>/dev/null; exec " + " ".join(shlex.quote(x) for x in inner)]
        else:
            cmd = inner
        try:
            subprocess.run(cmd, env={"PATH": "/usr/sbin:/usr/bin:/sbin:/bin"}, capture_output=True, timeout=1500, cwd=ctx.w, stdin=subprocess.DEVNULL)
        except subprocess.TimeoutExpired:
            pass
        res, cur = {}, None
        for line in (open(op, errors="replace") if os.path.exists(op) else []):
            try:
                e = json.loads(line)
            except ValueError:
                continue
            ev = e["ev"]
            if ev == "mark" and e["label"].startswith("item:"):
                cur = e["label"][5:]
                res[cur] = dict(logged=False, other=[], n_real=0, record=b"", errors=[], returned=None)
            elif cur is None:
                continue
            elif ev == "error":
                res[cur]["errors"].append(e["what"])
            elif ev in ("at", "ret") and e.get("label") == cur:
                if ev == "at":
                    res[cur]["n_real"] += 1
                else:
                    res[cur]["returned"] = (e["ret"], e["errno"])
                for sn, data in e["sinks"].items():
                    recs = cf.frame_records(sn, data)
                    if sn == "file" and recs:
                        res[cur]["logged"] = True
                    elif recs:
                        res[cur]["other"].append((sn, recs[0][:60]))
            elif ev == "child" and e.get("signal"):
                res[cur]["signal"] = e["signal"]
        return res

    with ThreadPoolExecutor(max_workers=len(batches)) as ex:
        outs = list(ex.map(one, range(len(batches))))
    obs = {}
    for o in outs:
        obs.update(o)
    return obs, can_ns


def transient_fault_family(rep, b):
    """A fault that hits ONE call (the open or read of an ancestor's stat file fails once) must not change the verdict of the NEXT call of the same
    process: call A under the fault, call B undisturbed, B must drop exactly as in the run without any fault. (strace injection, as in C03.)"""
    import re
    ctx = cf.Ctx(b, os.path.join(b["root"], "transient"))
    filters.open_tree(ctx.w, b["root"])
    open(ctx.log, "wb").close()
    # the caller is the driver's main process, whose parent is strace itself (strace counts `when=` per traced process, so there must be only one)
    ini = b'[snoopy]\nmessage_format = "%{cmdline}"\noutput = file:' + ctx.log + b'\nfilter_chain = "exclude_spawns_of:strace"\n'
    s = drv.Script().add("childtimeout", 20)
    s.add("sinkfile", "file", drv.hx(ctx.log)).path(ctx.helper).argv([b"prog", b"x"]).envp([b"A=1"]).add("ret", -1, 2).add("snap", 0)
    s.add("ini", drv.hx(ini)).call("execve", "a").call("execve", "b")
    sp = os.path.join(ctx.w, "t.script")
    open(sp, "w").write(s.text())
    pre = b["lib"] + ":" + os.path.join(c.BUILD, "librec.so")

    def once(inject, tag):
        op, tr = os.path.join(ctx.w, tag + ".out"), os.path.join(ctx.w, tag + ".strace")
        for f in (op, tr):
            if os.path.exists(f):
                os.unlink(f)
        cmd = ["strace", "-f", "-o", tr, "-s", "80"] + (["-e", "inject=" + inject] if inject else []) + [
            "-E", "LD_PRELOAD=" + pre, "-E", "XDRV_INI=" + os.path.join(ctx.etc, "snoopy.ini"), "-E", "XDRV_MARK=1", os.path.join(c.BUILD, "xdrv"), sp, op]
        try:
            subprocess.run(cmd, capture_output=True, timeout=120, cwd=ctx.w, stdin=subprocess.DEVNULL)
        except subprocess.TimeoutExpired:
            return None, tr
        recs = {}
        for line in (open(op, errors="replace") if os.path.exists(op) else []):
            try:
                e = json.loads(line)
            except ValueError:
                continue
            if e.get("ev") == "at" and e.get("label") in ("a", "b"):
                recs[e["label"]] = bool(cf.frame_records("file", e["sinks"].get("file")))
        return recs, tr
    dry, tr = once(None, "dry")
    if not dry or dry.get("b") is not False:
        rep.assumptions.append("transient-fault family: the undisturbed run did not drop call B (%r); family skipped" % (dry,))
        return 0
    # system calls of call A (between the first ENTER and LEAVE markers) that touch a /proc/<pid>/stat file
    counts, inwin, plans, fdstat = {}, False, [], set()
    for line in open(tr, errors="replace"):
        m = re.match(r"^(\d+)\s+(\w+)\((.*)$", line)
        if not m:
            continue
        name, rest = m.group(2), m.group(3)
        counts[name] = counts.get((m.group(1), name), 0) + 1          # strace counts `when=` per traced process: so do we (the caller is a forked child)
        counts[(m.group(1), name)] = counts[name]
        if name == "write" and "XDRV-ENTER" in rest:
            inwin = not plans and not fdstat and counts.get("_entered", 0) == 0
            counts["_entered"] = counts.get("_entered", 0) + 1
            continue
        if name == "write" and "XDRV-LEAVE" in rest:
            inwin = False
            continue
        if not inwin:
            continue
        if name == "openat" and re.search(r'"/proc/\d+/stat"', rest):
            for en in ("EMFILE", "ENFILE", "EACCES", "ENOMEM"):
                plans.append(("openat:error=%s:when=%d" % (en, counts[name]), "open of an ancestor's stat file fails with %s during call A" % en))
            fd = rest.rsplit("=", 1)[1].strip().split()[0]
            fdstat.add(fd)
        elif name == "read" and rest.split(",", 1)[0].strip() in fdstat:
            for en in ("EIO", "EINTR"):
                plans.append(("read:error=%s:when=%d" % (en, counts[name]), "read of an ancestor's stat file fails with %s during call A" % en))
    n = 0
    for inj, what in plans[:12]:
        got, _ = once(inj, "f%d" % n)
        n += 1
        if got is None or "b" not in got:
            rep.violation("transient-fault:no-result", "%s: the process did not finish both calls" % what, dict(inject=inj))
        elif got["b"] is not False:
            rep.violation("transient-fault:sticky", "%s; the following, undisturbed call of the same process is then logged although its parent is listed" % what, dict(inject=inj, records=got))
    return n


def run(tier, seed, replay=None):
    rep = c.Reporter("C15", tier, seed, "model_checking")
    rnd = random.Random(seed)
    b = c.build("prod", tag="C15", cwd_etc=True)
    rep.tlc(c.run_tlc("SpawnsOfMC.tla", "SpawnsOfMC.cfg"))
    if tier == "thorough":
        rep.tlc(c.run_tlc("SpawnsOfMC.tla", "SpawnsOfMCdeep.cfg", heap="16g"))
    rep.cov["vacuity_guards"] = {d: c.run_tlc("SpawnsOfMC.tla", "SpawnsOfDefect_%s.cfg" % d, expect_violation=True).violated for d in ("D1", "D2", "D3", "D4", "D5", "D6")}
    g = c.run_tlc("SpawnsOfMC.tla", "SpawnsOfGenU.cfg", heap="16g")
    rep.tlc(g)
    hs = [json.loads(x) for x in g.printed]
    if tier == "quick":
        small = [h for h in hs if len(h["chain"]) == 1]
        big = [h for h in hs if len(h["chain"]) > 1]
        rnd.shuffle(big); rnd.shuffle(small)
        hs = small[:600] + big[:3400]
    # deep chains (up to 12) and long lists (up to 50) with duplicates and empty items: derived cases whose verdict the contract fixes
    names = ["sshd", "sshd-x", "a b", "a) S 1 (", "abcdefghijklmno", "zz", "sudo", "cron", "x", "a"]
    for k in range(150 if tier == "quick" else 1500):
        depth = rnd.randint(4, 12)
        chain = [rnd.choice(names) for _ in range(depth)]
        ln = rnd.choice([3, 10, 50])
        lst = [rnd.choice(names + ["", "", "nomatch", "sshd-", "bcdefghijklmno", "abcdefghijklmnop"]) for _ in range(ln)]
        selfname = rnd.choice(names)
        hs.append(dict(chain=chain, self=selfname, list=lst, unread=0, drop=any(x in set(lst) - {""} for x in chain)))
    # names at the kernel's 15-byte limit of a process name: a listed name that merely starts with (or is a prefix of) such a name is a different name
    X = "abcdefghijklmno"
    for chain in ([X], ["zz", X], [X, "zz"], ["zz", X, "cron"], ["sshd"]):
        for lst in ([X + "p"], [X + "pqrstuvwxyz", "nomatch"], ["nomatch", X + "p", ""], [X[:14]], [X[:14], X + "p"], [X], [X + "p", X]):
            hs.append(dict(chain=chain, self="zz", list=lst, unread=0, drop=any(x in set(lst) - {""} for x in chain)))
    # an ancestor without a name (prctl(PR_SET_NAME, "")): its stat line cannot be parsed, which the filter treats like an unreadable process --
    # the walk ends there: matches below it still drop, what lies above it is not seen
    for chain in (["", "sshd"], ["sshd", ""], ["zz", "", "sshd"], ["zz", "sshd", ""], [""], ["cron", "zz", ""]):
        for lst in (["sshd"], ["nomatch", "sshd", ""], ["zz"]):
            cut = chain.index("")
            hs.append(dict(chain=chain, self="zz", list=lst, unread=0, drop=any(x in set(lst) - {""} for x in chain[:cut])))
    # long lists of distinct names with the match at a late position (32nd, 33rd, 40th, 50th name), and without any match
    for n in (31, 32, 33, 34, 40, 50):
        filler = ["n%02d" % i for i in range(n - 1)]
        hs.append(dict(chain=["zz", "sshd"], self="zz", list=filler + ["sshd"], unread=0, drop=True))
        hs.append(dict(chain=["sshd"], self="zz", list=filler[: n // 2] + ["", ""] + filler[n // 2:] + ["sshd"], unread=0, drop=True))
        hs.append(dict(chain=["zz", "cron"], self="zz", list=filler + ["sshd"], unread=0, drop=False))
    cases, meta = [], {}
    for i, h in enumerate(hs):
        lab = "s%d" % i
        text = ",".join(h["list"])
        if len(text) > 900 or all(x == "" for x in h["list"]) and False:
            continue
        cases.append((lab, h["chain"], h["self"], h["list"], h.get("unread", 0)))
        meta[lab] = h
    c.log("[C15] replaying %d process chains" % len(cases))
    obs, ns = run_cases(b, cases, b["root"] + "/run")
    if not ns:
        rep.assumptions.append("pid namespaces unavailable: chains hang below the harness's own ancestors, pid 1 is the sandbox's init")
    nontriv = 0
    for lab, chain, selfname, items, unread in cases:
        h = meta[lab]
        if unread and not ns:
            continue
        if len(chain) >= 2:
            nontriv += 1
        prob = filters.judge(obs.get(lab), not h["drop"])
        if prob and prob.startswith("HARNESS:"):
            rep.assumptions.append("case skipped (setup failed): " + prob[:100])
            continue
        if prob and len(rep.violations) >= 15:
            continue                         # enough confirmed counterexamples; each confirmation costs a fresh run
        if prob:
            o2, _ = run_cases(b, [(lab, chain, selfname, items, unread)], b["root"] + "/confirm")
            if not filters.judge(o2.get(lab), not h["drop"]):
                rep.assumptions.append("non-repeatable observation ignored: " + prob[:80])
                continue
            pos = [i + 1 for i, n in enumerate(chain) if n in set(items) - {""}]
            kind = ("match-at-top" if pos and pos[0] == len(chain) else "match-at-parent" if pos and pos[0] == 1 else "match-in-middle" if pos else
                    "self-listed" if selfname in items else "no-match")
            rep.violation("%s:%s%s%s" % (kind, "empty-items" if "" in items else "plain-list", ":deep" if len(chain) > 3 else "", ":unreadable-from-%d" % unread if unread else ""),
                          "ancestors (parent first) %r%s, own name %r, exclude_spawns_of:%s : %s" % (chain, " (unreadable from position %d up)" % unread if unread else "", selfname, ",".join(items)[:120], prob),
                          dict(chain=chain, self=selfname, list=items, contract="drop" if h["drop"] else "pass"))
    ntf = transient_fault_family(rep, b)
    rep.cov["transient_fault_runs"] = ntf
    rep.cov["traces_validated_against_impl"] = len(cases)
    rep.cov["evaluations"] = len(cases)
    rep.cov["distinct_nontrivial"] = nontriv
    rep.cov["rule"] = ("case = (ancestor chain of depth 1..3 over 6 names incl. spaces, parentheses, a 15-byte name and a prefix pair; own name; list of <= 2 items incl. "
                       "empty items) generated by TLC with the contract's verdict, plus random chains of depth 4..12 with lists of up to 50 items; built for real in a pid "
                       "namespace; non-trivial = depth >= 2")
    for h in hs[:2] + hs[-1:]:
        rep.sample(dict(chain=h["chain"], self=h["self"], list=h["list"], drop=h["drop"]))
    rep.assumptions.append("unreadable ancestors are produced with a hidepid=2 proc mount inside the pid namespace: ancestors from position u upwards are root-owned, "
                           "the caller and the ancestors below u run as uid 4242")
    return rep.finish()
