"""C11 (and C06): histories of config rewrites and calls inside one process.
TLC generates the histories (exhaustively for length 2, -simulate for longer ones) together with the records the
CONTRACT of spec/SnoopyCall.tla expects for every call -- a function of the current file and call only.  Each history is
replayed in ONE process against the production library (thread-safe and non-thread-safe builds)."""
import json, os, random
from vlib import common as c
from checks import callflow as cf

TAIL = 3
BUCKETS = {"C11": ("C04", "C01", "C16"), "C06": ("C04", "C01")}


def run_hist_prop(prop, tier, seed, extra=None):
    rep = c.Reporter(prop, tier, seed, "model_checking")
    rnd = random.Random(seed)
    rep.tlc(c.run_tlc("SnoopyCallMC.tla", "SnoopyCallMC%s.cfg" % prop))
    rep.tlc(c.run_tlc("SnoopyCallMC.tla", "SnoopyCallMCnts.cfg"))
    guards = {}
    for d in ({"C11": ["carry_ints", "leak_on_reassign"], "C06": ["ids_not_reset"]}[prop]):
        guards[d] = c.run_tlc("SnoopyCallMC.tla", "SnoopyCallDefect_%s.cfg" % d, expect_violation=True).violated
    rep.cov["vacuity_guards"] = guards
    g = c.run_tlc("SnoopyCallMC.tla", "SnoopyCallGen%s.cfg" % prop, heap="16g")
    rep.tlc(g)
    behs = [json.loads(x) for x in g.printed]
    exhaustive2 = len(behs)
    if tier == "quick" and len(behs) > 1200:
        rnd.shuffle(behs)
        behs = behs[:1200]
    sim = c.run_tlc("SnoopyCallMC.tla", "SnoopyCallSim%s.cfg" % prop, simulate=(20 if tier == "quick" else 150), depth=130, seed=seed, workers=8)
    behs += [json.loads(x) for x in sim.printed]
    if prop == "C11":
        siml = c.run_tlc("SnoopyCallMC.tla", "SnoopyCallSimC11long.cfg", simulate=(3 if tier == "quick" else 25), depth=420, seed=seed + 1, workers=8)
        behs += [json.loads(x) for x in siml.printed]
    items, expects = [], {}
    for i, h in enumerate(behs):
        steps = [(st["file"], st["call"], st["result"]) for st in h]
        steps += [steps[-1]] * TAIL                     # identical repeats of the last step: accumulation shows up here
        items.append(("h%d" % i, steps))
        expects["h%d" % i] = [st["expect"] for st in h] + [h[-1]["expect"]] * TAIL
    variants = ["prod", "nots"]
    total = 0
    nontriv = set()
    seen_cls = {}
    for v in variants:
        b = c.build(v, tag=prop, cwd_etc=True)
        c.log("[%s] replaying %d histories on the %s build" % (prop, len(items), v))
        obs = cf.run_hist(b, items, b["root"] + "/run")
        for label, steps in items:
            total += 1
            if len({json.dumps(s[0], sort_keys=True) for s in steps}) > 1 or len({json.dumps(s[1], sort_keys=True) for s in steps}) > 1:
                nontriv.add(json.dumps(steps, sort_keys=True))
            res = cf.evaluate_hist(label, steps, expects[label], obs.get(label), tail=TAIL)
            res = [r for r in res if not (r[0] == 0 and r[2].startswith("residue:heap"))]
            for k, bucket, sig, what in res:
                if bucket not in BUCKETS[prop]:
                    continue
                if bucket == "C16" and not sig.startswith("growth"):
                    continue
                if bucket == "C01" and sig not in ("crash", "real-exec-count", "no-return"):
                    continue
                cls = (v, bucket, sig.split(":")[0])
                seen_cls[cls] = seen_cls.get(cls, 0) + 1
                if seen_cls[cls] > 4:
                    continue                 # this failure class has been confirmed and reported four times already
                o2 = cf.run_hist(b, [(label, steps)], b["root"] + "/confirm", workers=1)
                res2 = cf.evaluate_hist(label, steps, expects[label], o2.get(label), tail=TAIL)
                if not any(r2[2] == sig and r2[0] == k for r2 in res2):
                    rep.assumptions.append("non-repeatable observation ignored: %s" % what[:120])
                    continue
                prev = steps[k - 1][0] if k > 0 else None
                rep.violation("%s:%s:%s" % (v, sig.split(":")[0] + ":" + sig.split(":")[1] if ":" in sig else sig,
                                            "after-" + (prev["state"] if prev and prev["state"] != "ok" else (prev["out"] if prev else "first"))),
                              "[%s build] %s" % (v, what), dict(build=v, history=steps, failing_step=k, expected=expects[label][k]))
        # differential oracle: the last step of every history must leave at every sink exactly what the same call leaves as the FIRST call of a
        # fresh process (error records included, which the contract otherwise only tolerates); numbers of two or more digits (pids, sids) are masked
        if prop == "C11":
            import re as _re
            def step_sig(o, k):
                st = (o or {}).get("steps", {}).get(k, {})
                sig = {}
                wd = [x for x in {o["ctx"].w.encode(), os.path.realpath(o["ctx"].w).encode()}] if o and o.get("ctx") else []
                for ev in ("at", "ret"):
                    for e in st.get(ev, []):
                        for sn, data in (e.get("sinks") or {}).items():
                            for rec in cf.frame_records(sn, data):
                                for w_ in wd:
                                    rec = rec.replace(w_, b"<workdir>")      # the worker's own directory (it shows in %{cwd} and in paths)
                                sig.setdefault(sn, []).append(_re.sub(rb"\d{2,}", b"N", rec))
                return sig
            lastkey, fresh_items = {}, []
            for label, steps in items:
                f_, call_, res_ = steps[-1]
                key = json.dumps([f_, call_, res_], sort_keys=True)
                if key not in lastkey:
                    lastkey[key] = "fresh%d" % len(lastkey)
                    fresh_items.append((lastkey[key], [steps[-1]]))
            fobs = cf.run_hist(b, fresh_items, b["root"] + "/fresh")
            ndiff = 0
            for label, steps in items:
                o = obs.get(label)
                if not o or len(o.get("steps", {})) < len(steps):
                    continue                                   # incomplete histories are reported above
                key = json.dumps(list(steps[-1]), sort_keys=True)
                a_, b_ = step_sig(o, len(steps) - 1), step_sig(fobs.get(lastkey[key]), 0)
                if a_ != b_:
                    ndiff += 1
                    if ndiff > 3:
                        continue
                    o2 = cf.run_hist(b, [(label, steps)], b["root"] + "/confirm", workers=1)
                    if step_sig(o2.get(label), len(steps) - 1) == b_:
                        rep.assumptions.append("non-repeatable difference from the fresh-process run ignored (%s)" % label)
                        continue
                    sn = next((x for x in set(a_) | set(b_) if a_.get(x) != b_.get(x)), "?")
                    rep.violation("%s:differs-from-fresh-process:%s" % (v, sn), "[%s build] after a history of %d calls the last call leaves %r at %s; as the first call of a fresh process it leaves %r" % (
                        v, len(steps) - 1, [r[:80] for r in a_.get(sn, [])][:3], sn, [r[:80] for r in b_.get(sn, [])][:3]), dict(build=v, history=steps))
            rep.cov["last_steps_compared_with_fresh_process"] = len(items)
    if extra:
        nextra = extra(rep, b)
        total += nextra
        rep.cov["boundary_vectors_replayed"] = nextra
    rep.cov["traces_validated_against_impl"] = total
    rep.cov["evaluations"] = total
    rep.cov["distinct_nontrivial"] = len(nontriv)
    rep.cov["exhaustive_length2_histories"] = exhaustive2
    rep.cov["rule"] = ("history = sequence of (config file state, call inputs) generated by TLC from SnoopyCallMC (all of length 2 over the "
                       "%s alphabets, random ones of length 5..30 by -simulate), replayed in one process per build variant; "
                       "non-trivial = the history changes the file or the call shape at least once" % prop)
    for h in behs[:2]:
        rep.sample([dict(file=st["file"], call=st["call"], expect=st["expect"]) for st in h])
    rep.assumptions.append("builds compared: " + ", ".join(variants))
    return rep.finish()


def run(tier, seed, replay=None):
    return run_hist_prop("C11", tier, seed)
