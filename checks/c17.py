"""C17: file records are appended whole; concurrent writers never interleave.
spec/FileOutput.tla: TLC shows whole-record files <=> one write per record on an O_APPEND descriptor (and that two writes or a
non-append descriptor break it). Binding: the production library runs under strace for record sizes 1 .. 1 MiB, for an absent /
empty / non-empty log file and the file, devtty and devnull outputs; the system calls on the log descriptor are validated by TLC
against the protocol (FileOutputTrace). Corroboration: concurrent writer processes, final file must be the multiset of records."""
import json, os, random, re, subprocess
from vlib import common as c, drv
from checks import callflow as cf, c05

LINE = re.compile(r"^(\d+)\s+(\w+)\((.*)$")


def traced_call(b, ctx, ini, envlen, tag, pty=False, fsize=None):
    s = drv.Script()
    if pty:
        s.add("sinkpty")
    if fsize is not None:
        s.add("fsizelimit", fsize)
    s.add("ini", drv.hx(ini)).add("envpat", drv.hx(b"V1"), envlen, 3)
    s.path(ctx.helper).argv([b"prog"]).envp([b"A=1"]).add("ret", -1, 2).add("quiet", 1).add("emit", "go").call("execve", tag)
    sp, op, tr = os.path.join(ctx.w, tag + ".script"), os.path.join(ctx.w, tag + ".out"), os.path.join(ctx.w, tag + ".strace")
    open(sp, "w").write(s.text())
    for f in (op, tr):
        if os.path.exists(f):
            os.unlink(f)
    pre = b["lib"] + ":" + os.path.join(c.BUILD, "librec.so")
    cmd = ["strace", "-f", "-o", tr, "-s", "40", "-e", "trace=openat,open,creat,write,writev,pwrite64,close,ftruncate,lseek,flock",
           "-E", "LD_PRELOAD=" + pre, "-E", "XDRV_INI=" + os.path.join(ctx.etc, "snoopy.ini"), os.path.join(c.BUILD, "xdrv"), sp, op]
    subprocess.run(cmd, capture_output=True, timeout=120, cwd=ctx.w, stdin=subprocess.DEVNULL)
    return tr


def log_events(tracefile, path, reclen):
    """system calls on the log file -> trace events"""
    ev, fds = [], {}
    q = '"' + path + '"'
    for line in open(tracefile, errors="replace"):
        m = LINE.match(line)
        if not m:
            continue
        name, rest = m.group(2), m.group(3)
        ret = rest.rsplit("=", 1)[1].strip() if "=" in rest else "?"
        if name in ("openat", "open", "creat") and q in rest:
            fd = ret.split()[0]
            ev.append({"e": "open", "append": "O_APPEND" in rest, "trunc": "O_TRUNC" in rest or name == "creat", "ok": not ret.startswith("-1"), "flags": rest.split(",")[2].strip() if rest.count(",") >= 2 else ""})
            if not ret.startswith("-1"):
                fds[fd] = True
        elif name in ("write", "writev", "pwrite64", "ftruncate", "lseek", "flock"):
            fd = rest.split(",", 1)[0].split(")")[0].strip()
            if fd in fds:
                n = int(ret.split()[0]) if ret.split()[0].lstrip("-").isdigit() else -1
                if name in ("write", "writev", "pwrite64"):
                    ev.append({"e": "write", "n": n, "whole": n == reclen and name == "write"})
                elif name == "ftruncate":
                    ev.append({"e": name})           # never allowed; lseek / flock on the descriptor change nothing the property is about
        elif name == "close":
            fd = rest.split(")")[0].strip()
            if fds.pop(fd, None):
                ev.append({"e": "close"})
    return ev


def run(tier, seed, replay=None):
    rep = c.Reporter("C17", tier, seed, "model_checking")
    rnd = random.Random(seed)
    b = c.build("prod", tag="C17", cwd_etc=True)
    rep.tlc(c.run_tlc("FileOutput.tla", "FileOutputMC.cfg"))
    rep.cov["vacuity_guards"] = {"two writes per record": c.run_tlc("FileOutput.tla", "FileOutputTwoWrites.cfg", expect_violation=True).violated,
                                 "descriptor without O_APPEND": c.run_tlc("FileOutput.tla", "FileOutputNoAppend.cfg", expect_violation=True).violated}
    if tier == "thorough":
        # inductive argument with Apalache (spec/FileOutputApa.tla): Init => IndInv, IndInv /\ Next => IndInv', IndInv => NothingLostOrDuplicated
        work = os.path.join(b["root"], "apa")
        os.makedirs(work)
        import shutil
        shutil.copy(os.path.join(c.SPEC, "FileOutputApa.tla"), work)
        obligations = [("--init=Init", "--inv=IndInv", "--length=0"), ("--init=IndInit", "--inv=IndInv", "--length=1"), ("--init=IndInit", "--inv=NothingLostOrDuplicated", "--length=0")]
        ok = 0
        for ob in obligations:
            try:
                p = subprocess.run(["apalache-mc", "check", "--cinit=CInit"] + list(ob) + ["FileOutputApa.tla"], cwd=work, capture_output=True, text=True, timeout=900)
                if "EXITCODE: OK" in p.stdout:
                    ok += 1
            except (subprocess.TimeoutExpired, OSError):
                pass
        rep.cov["apalache_inductive_obligations"] = {"discharged": ok, "of": len(obligations)}
        if ok != len(obligations):
            rep.assumptions.append("Apalache did not discharge all three inductive obligations of FileOutputApa.tla in this run (%d of 3); TLC's bounded check stands alone" % ok)
    ctx = cf.Ctx(b, os.path.join(b["root"], "w"))
    sizes = [1, 100, 4094, 4095, 4096, 4097, 8192, 16384, 65536, 1048575]
    if tier == "thorough":
        sizes += [2, 255, 4093, 8191, 8193, 12288, 32768, 131072, 524288, 1048574]
    scen = []
    for n in sizes:
        for pre in ("absent", "empty", "content"):
            scen.append(("file", n, pre))
    for n in (1, 4096, 70000):
        scen.append(("devnull", n, "n/a"))
    for n in (1, 4096, 8000):                      # nobody drains the pty during the call: stay below its buffer size
        scen.append(("devtty", n, "n/a"))
    trace, index, meta = [], [], []
    for k, (out, n, pre) in enumerate(scen):
        log = os.path.join(ctx.w, "c17-%d.log" % k)
        old = b""
        if pre == "empty":
            open(log, "wb").close()
        elif pre == "content":
            old = b"existing line one\nexisting line two without newline"
            open(log, "wb").write(old)
        target = {"file": log, "devnull": "/dev/null", "devtty": "/dev/tty"}[out]
        outline = {"file": b"file:" + log.encode(), "devnull": b"devnull", "devtty": b"devtty"}[out]
        ini = b'[snoopy]\nmessage_format = "%{env:V1}"\noutput = ' + outline + b"\ndatasource_message_max_length = 1048575\nlog_message_max_length = 1048575\n"
        tr = traced_call(b, ctx, ini, n, "t%d" % k, pty=(out == "devtty"))
        evs = log_events(tr, target, n + 1)
        rec = {"e": "record"}
        trace.append(rec); index.append(k)
        for e in evs:
            trace.append(e); index.append(k)
        problems = []
        if out == "file":
            now = open(log, "rb").read() if os.path.exists(log) else None
            expect = old + c05.pat(c05.VAL, 3, n) + b"\n"
            if now != expect:
                problems.append("file content after the call is not old content + record (old %d bytes, now %s bytes, expected %d)" % (len(old), len(now) if now is not None else None, len(expect)))
        meta.append(dict(out=out, n=n, pre=pre, events=evs, problems=problems))
    # the file system takes only part of the record (RLIMIT_FSIZE a few bytes above the current size): whatever the library then does, it must not
    # cut the file back (another writer may have appended in the meantime) -- no ftruncate, no O_TRUNC, old content still there
    ctx2 = cf.Ctx(b, os.path.join(b["root"], "short"))
    for k, n in enumerate((100, 5000)):
        log = os.path.join(ctx2.w, "short-%d.log" % k)
        old = b"existing line one\nexisting line two\n" * 20
        open(log, "wb").write(old)
        ini = b'[snoopy]\nmessage_format = "%{env:V1}"\noutput = file:' + log.encode() + b"\ndatasource_message_max_length = 1048575\nlog_message_max_length = 1048575\n"
        tr = traced_call(b, ctx2, ini, n, "s%d" % k, fsize=len(old) + 40)
        evs = log_events(tr, log, n + 1)
        now = open(log, "rb").read()
        probs = []
        if any(e["e"] == "ftruncate" or (e["e"] == "open" and e.get("trunc")) for e in evs):
            probs.append("the log is truncated after a short write: %s" % [(e["e"], e.get("n", "")) for e in evs])
        if not now.startswith(old):
            probs.append("content that was in the file before the call is gone (%d of %d old bytes left)" % (len(os.path.commonprefix([now, old])), len(old)))
        for p_ in probs:
            rep.violation("file:short-write:%s" % ("ge4096" if n >= 4096 else "lt4096"), "file output, record of %d bytes, the file system accepts only 40 more bytes: %s" % (n + 1, p_), dict(events=evs))
        meta.append(dict(out="file", n=n, pre="short-write", events=evs, problems=[]))
    trace.append({"e": "end"}); index.append(len(scen) - 1)
    tf = os.path.join(b["root"], "c17.ndjson")
    with open(tf, "w") as f:
        for e in trace:
            f.write(json.dumps(e) + "\n")
    tv = c.run_tlc("FileOutputTrace.tla", "FileOutputTrace.cfg", workers=1, env={"TRACE": tf})
    rep.cov["states"] += tv.distinct
    rep.cov["transitions"] += tv.generated
    verdict = json.loads(tv.printed[-1])
    if verdict["consumed"] != len(trace):
        raise c.MachineryError("trace validation consumed %d of %d events" % (verdict["consumed"], len(trace)))
    badscen = {}
    for ln in verdict["bad"]:
        badscen.setdefault(index[ln - 1], []).append(trace[ln - 1])
    for k, m in enumerate(meta):
        if not m["events"] and m["out"] != "devtty":
            m["problems"].append("no system call on the log file was observed")
        if k in badscen:
            e = badscen[k][0]
            what = {"open": "the log is opened with flags %s (must be for appending, never truncating)" % e.get("flags"),
                    "write": "a write of %s bytes for a record of %d bytes (records must go out in one write)" % (e.get("n"), m["n"] + 1),
                    "close": "close without exactly one whole-record write before it"}.get(e["e"], "unexpected %s on the log descriptor" % e["e"])
            m["problems"].append(what)
        for p in m["problems"]:
            size_class = "ge4096" if m["n"] + 1 >= 4096 else "lt4096"
            kind = "content" if "content" in p else "open" if "opened" in p else "write" if "write" in p else "other"
            rep.violation("%s:%s:%s:%s" % (m["out"], kind, size_class, m["pre"]), "%s output, record of %d bytes, log file %s: %s; system calls: %s" % (
                m["out"], m["n"] + 1, m["pre"], p, [(e["e"], e.get("n", e.get("flags", ""))) for e in m["events"]][:8]),
                dict(output=m["out"], message_bytes=m["n"], preexisting=m["pre"], events=m["events"]))
    # corroboration: concurrent writer processes on one file
    nw = 8 if tier == "quick" else 16
    per = 25 if tier == "quick" else 60
    log = os.path.join(ctx.w, "shared.log")
    open(log, "wb").write(b"pre-existing content\n")
    ini = b'[snoopy]\nmessage_format = "%{cmdline}"\noutput = file:' + log.encode() + b"\ndatasource_message_max_length = 1048575\nlog_message_max_length = 1048575\n"
    open(os.path.join(ctx.etc, "snoopy.ini"), "wb").write(ini)
    expected = []
    procs = []
    for w in range(nw):
        s = drv.Script()
        s.path(ctx.helper).envp([b"A=1"]).add("ret", -1, 2).add("quiet", 1)
        for k in range(per):
            ln = rnd.choice([60, 900, 4090, 5000, 9000, 70000])
            payload = b"W%d-%d-%d:" % (w, k, ln) + c05.pat(c05.ARG, w * 131 + k, ln)
            expected.append(payload)
            s.argv([payload]).call("execve", "x")
        sp = os.path.join(ctx.w, "cw%d.script" % w)
        open(sp, "w").write(s.text())
        env = {"PATH": "/usr/bin:/bin", "LD_PRELOAD": b["lib"] + ":" + os.path.join(c.BUILD, "librec.so"), "XDRV_INI": os.path.join(ctx.etc, "snoopy.ini")}
        procs.append(subprocess.Popen([os.path.join(c.BUILD, "xdrv"), sp, os.path.join(ctx.w, "cw%d.out" % w)], env=env, cwd=ctx.w, stdin=subprocess.DEVNULL,
                                      stdout=subprocess.DEVNULL, stderr=subprocess.DEVNULL))
    for p in procs:
        p.wait(timeout=600)
    data = open(log, "rb").read()
    if not data.startswith(b"pre-existing content\n"):
        rep.violation("stress:initial-content-lost", "concurrent writers: the content that was in the file before is gone", dict(writers=nw))
    got = sorted(data[len(b"pre-existing content\n"):].split(b"\n")[:-1])
    if got != sorted(expected):
        missing = len(set(expected) - set(got))
        torn = len([g for g in got if g not in set(expected)])
        rep.violation("stress:torn-or-lost", "%d concurrent writers x %d records: %d records missing, %d lines that are no record" % (nw, per, missing, torn),
                      dict(writers=nw, records_each=per, first_bad=repr(next((g for g in got if g not in set(expected)), b"")[:120])))
    rep.cov["traces_validated_against_impl"] = len(scen)
    rep.cov["evaluations"] = len(scen) + nw * per
    rep.cov["distinct_nontrivial"] = len([m for m in meta if m["n"] + 1 >= 4096])
    rep.cov["rule"] = ("scenario = (output in {file, devnull, devtty}, message length, log file absent/empty/with content), one strace'd call each, "
                       "events on the log descriptor validated by FileOutputTrace; non-trivial = record of 4096 bytes or more (beyond one stdio buffer); "
                       "plus a stress run of %d writer processes x %d tagged records" % (nw, per))
    for m in meta[:2] + meta[-1:]:
        rep.sample(dict(output=m["out"], record_bytes=m["n"] + 1, file_was=m["pre"], events=m["events"]))
    rep.assumptions += ["the kernel appends each write(2) on an O_APPEND descriptor atomically (POSIX; local file systems)",
                        "thread writers are covered by the same per-record system-call contract; the stress part uses processes"]
    return rep.finish()
