"""C20: ld.so.preload is never left half-written -- crash points and write faults.

Spec: Preload.tla runs the write protocol one system call at a time with Crash enabled between any two;
OldOrNew is a TLC invariant (and fails for the truncate-then-write protocol: PreloadDefectC20.cfg).
Binding: the real snoopyctl runs under strace; it is killed on entry to every system call of the run (every
boundary) and every write-type call is made to fail with ENOSPC/EIO/EDQUOT; the file then found on disk must be
the complete old or new content (the contract), and the recorded call sequence + disk content must be a
behaviour of the Preload state machine (PreloadSysTrace; a rejection there is drift, not a violation).
"""
import json, os, random, re, shutil, subprocess
from concurrent.futures import ThreadPoolExecutor
from vlib import common as c
from checks.preload import Concrete, read_file

WRITE_TYPE = ("write", "pwrite64", "writev", "fsync", "fdatasync", "close", "rename", "renameat", "renameat2",
              "ftruncate", "fchmod", "openat", "unlink", "unlinkat", "link", "linkat")
LINE = re.compile(r"^(\d+)\s+(\w+)\((.*)$")


def strace(args, env, out=None, inject=None, timeout=30, bind=None):
    cmd = ["strace", "-f", "-s", "5000", "-o", out or "/dev/null"]
    if inject:
        cmd += ["-e", "inject=" + inject]
    cmd += args
    if bind:        # ld.so.preload is its own mount point (a file bind-mounted into a container): rename() over it fails with EBUSY
        cmd = ["unshare", "-m", "--propagation", "private", "sh", "-c", 'mount --bind "$0" "$0" && exec "$@"', bind] + cmd
    try:
        p = subprocess.run(cmd, env=env, capture_output=True, timeout=timeout)
        return p.returncode
    except subprocess.TimeoutExpired:
        return 998


def parse(tracefile):
    """-> list of (name, args-text, ret-text)"""
    res = []
    for line in open(tracefile, errors="replace"):
        m = LINE.match(line)
        if not m:
            continue
        rest = m.group(3)
        ret = rest.rsplit("=", 1)[1].strip() if "=" in rest else "?"
        res.append((m.group(2), rest, ret))
    return res


def events(calls, path):
    """Map the system calls that touch the preload file or its temporary to spec action names."""
    ev = []           # (call index, event)
    fds = {}
    q = '"' + path + '"'
    for i, (name, rest, ret) in enumerate(calls):
        if ret.startswith("-1"):
            continue          # a failed call changes nothing
        if name in ("openat", "open") and ret.split()[0].lstrip("-").isdigit() and int(ret.split()[0]) >= 0:
            if '"' + path + '.tmp"' in rest and ("O_WRONLY" in rest or "O_RDWR" in rest):
                fds[ret.split()[0]] = "tmp"
                ev.append((i, "TmpOpen"))
            elif q in rest and ("O_TRUNC" in rest):
                fds[ret.split()[0]] = "disk"
                ev.append((i, "TruncOpen"))
            elif q in rest and ("O_WRONLY" in rest or "O_RDWR" in rest):
                fds[ret.split()[0]] = "disk"
                ev.append((i, "OpenWrite"))
        elif name in ("write", "pwrite64", "writev"):
            fd = rest.split(",", 1)[0].strip()
            if fds.get(fd) == "tmp":
                ev.append((i, "TmpWrite"))
            elif fds.get(fd) == "disk":
                ev.append((i, "TruncWrite"))
        elif name in ("fsync", "fdatasync"):
            fd = rest.split(")", 1)[0].strip()
            if fds.get(fd) == "tmp":
                ev.append((i, "TmpSync"))
        elif name in ("rename", "renameat", "renameat2") and q in rest and ret.startswith("0"):
            ev.append((i, "Rename"))
        elif name == "close":
            fd = rest.split(")", 1)[0].strip()
            fds.pop(fd, None)
    return ev


def run(tier, seed, replay=None):
    rep = c.Reporter("C20", tier, seed, "fault_enumeration")
    rnd = random.Random(seed)
    b = c.build("prod", tag="C20")
    conc = Concrete(b)
    rep.tlc(c.run_tlc("PreloadMC.tla", "PreloadMC.cfg"))
    g = c.run_tlc("PreloadMC.tla", "PreloadDefectC20.cfg", expect_violation=True)
    g2 = c.run_tlc("PreloadMC.tla", "PreloadDefectTmp.cfg", expect_violation=True)
    rep.cov["vacuity_guards"] = {"truncate-then-write protocol": g.violated, "temporary opened without truncation (stale tail survives)": g2.violated}
    r = c.run_tlc("PreloadMC.tla", "PreloadGen1.cfg")
    rep.tlc(r)
    behs = [json.loads(x) for x in r.printed]
    behs = [x for x in behs if x[1]["c"] in ("enable", "disable")]
    writers = [x for x in behs if x[1]["disk"] != x[0]["disk"]]
    others = [x for x in behs if x[1]["disk"] == x[0]["disk"]]
    rnd.shuffle(writers)
    rnd.shuffle(others)
    nw, no = (10, 2) if tier == "quick" else (60, 8)
    # always include the canonical cases
    def key(x):
        return (json.dumps(x[0]["disk"]), x[1]["c"])
    must = [x for x in writers if x[0]["disk"]["lines"] in ([["FOR"]], [["OWN"]], [["OWN", "SP", "FOR"]], []) ]
    chosen, seen = [], set()
    for x in must + writers[:nw] + others[:no]:
        if key(x) not in seen:
            seen.add(key(x))
            chosen.append(x)
    work = os.path.join(b["root"], "c20")
    os.makedirs(work)
    errnos = ["ENOSPC", "EIO", "EDQUOT"]

    # every scenario in the plain layout; the canonical ones also with ld.so.preload being a symbolic link to the real file
    jobs = [(si, "plain") for si in range(len(chosen))] + [(si, "symlink") for si in range(len(chosen)) if chosen[si] in must or tier == "thorough"]
    # ... and with a path of exactly PATH_MAX - 1 bytes (the name of the temporary, path + ".tmp", no longer fits)
    jobs += [(si, "path4095") for si in range(len(chosen)) if chosen[si] in must][: (3 if tier == "quick" else 12)]
    # ... and with ld.so.preload being a mount point of its own (private mount namespace per run)
    if subprocess.run(["unshare", "-m", "--propagation", "private", "true"], capture_output=True).returncode == 0:
        jobs += [(si, "bindmount") for si in range(len(chosen)) if chosen[si] in must and chosen[si][0]["disk"]["present"]][: (3 if tier == "quick" else 12)]

    def scenario(job):
        si, layout = job
        beh = chosen[si]
        d = os.path.join(work, "s%d-%s" % (si, layout))
        os.makedirs(d)
        path = os.path.join(d, "ld.so.preload")
        if layout == "path4095":
            fdir = d
            while len(fdir) + len("/ld.so.preload") < 4095:
                room = 4095 - len(fdir) - len("/ld.so.preload") - 1
                fdir += "/" + "d" * min(200, room) if room >= 1 else ""
                if room < 1:
                    break
            os.makedirs(fdir, exist_ok=True)
            path = fdir + "/ld.so.preload"
        fdir = os.path.dirname(path)
        target = os.path.join(d, "real.preload")
        env = {"SNOOPY_TEST_LD_SO_PRELOAD_PATH": path, "SNOOPY_TEST_LIBSNOOPY_SO_PATH": conc.own, "PATH": "/usr/bin:/bin"}
        old = conc.to_bytes(beh[0]["disk"])
        cmd = beh[1]["c"]

        def reset():
            for base_ in {d, fdir}:
                for f in os.listdir(base_):
                    if f != "dry.txt" and not os.path.isdir(os.path.join(base_, f)):
                        os.unlink(os.path.join(base_, f))
            if old is not None:
                with open(target if layout == "symlink" else path, "wb") as f:
                    f.write(old)
            if layout == "symlink":
                os.symlink("real.preload", path)
        reset()
        dry = os.path.join(d, "dry.txt")
        bind = path if layout == "bindmount" else None
        rc = strace([b["snoopyctl"], cmd], env, out=dry, bind=bind)
        calls = parse(dry)
        new = read_file(path)
        evs = events(calls, path)
        runs = []         # each: dict(kind, at, inject, disk, tmp, events)
        ok_old = old or b""
        ok_new = new or b""
        head = [{"e": "Reset", "disk": beh[0]["disk"]}, {"e": cmd}]
        trace = head + [{"e": e} for _, e in evs] + [{"e": "Done", "disk": conc.to_abstract(new), "exit": rc}]
        runs.append(dict(kind="dry", at=len(calls), trace=trace, disk=new, bad=False, what="dry run"))
        # first syscall index worth killing at: skip the dynamic loader prologue only in quick tier
        first = 0
        if tier == "quick":
            for i, (n, rest, ret) in enumerate(calls):
                if "ld.so.preload" in rest or "libsnoopy.so" in rest:
                    first = max(0, i - 1)
                    break
        count = {}
        for i, (name, rest, ret) in enumerate(calls):
            count[name] = count.get(name, 0) + 1
            if name in ("exit_group", "execve") or i < first:
                continue
            j = count[name]
            reset()
            strace([b["snoopyctl"], cmd], env, inject="%s:signal=SIGKILL:when=%d" % (name, j), bind=bind)
            disk = read_file(path)
            tmpc = read_file(path + ".tmp") if len(path) + 4 < 4096 else None
            done = [e for k, e in evs if k < i]
            tr = head + [{"e": e} for e in done] + [{"e": "Crash", "disk": conc.to_abstract(disk)}]
            window = (done[-1] if done else "start")
            bad = (disk or b"") not in (ok_old, ok_new)
            runs.append(dict(kind="kill", at=i, call=name, trace=tr, disk=disk, bad=bad, sig="kill-after:%s:%s" % (cmd, window),
                             what="%s killed on entry to system call #%d (%s), i.e. after %s: file holds %r (old %r, new %r)"
                                  % (cmd, i, name, window, disk, old, new)))
            if name in WRITE_TYPE and any(k == i for k, _ in evs) or (name in ("close", "fchmod") and evs and evs[0][0] < i <= evs[-1][0] + 2):
                for en in errnos:
                    reset()
                    ftr = os.path.join(d, "fault.txt")
                    rc2 = strace([b["snoopyctl"], cmd], env, out=ftr, inject="%s:error=%s:when=%d" % (name, en, j), bind=bind)
                    disk = read_file(path)
                    bad = (disk or b"") not in (ok_old, ok_new)
                    ev_name = dict(evs).get(i, name)
                    actual = [e for _, e in events(parse(ftr), path)]     # what this run really did
                    tr = head + [{"e": e} for e in actual] + [{"e": "Crash", "disk": conc.to_abstract(disk)}]
                    runs.append(dict(kind="fault", at=i, call=name, errno=en, trace=tr, disk=disk, bad=bad, exit=rc2,
                                     sig="fault:%s:%s:%s" % (cmd, ev_name, en),
                                     what="%s with %s failing with %s at call #%d: file holds %r (old %r, new %r), exit %d"
                                          % (cmd, ev_name, en, i, disk, old, new, rc2)))
        # short writes: the file system accepts only the first L bytes (RLIMIT_FSIZE = L with SIGXFSZ ignored, so write() returns a short count
        # and then fails with EFBIG): a partly written file must never be installed
        if new is not None and new != old and layout != "bindmount":
            cuts = sorted(set(range(0, len(new) + 1))) if (tier == "thorough" or len(new) <= 24) else sorted(set([0, 1, len(new) // 2, len(new) - 1, len(new)] + rnd.sample(range(len(new)), 6)))
            for L in cuts:
                reset()
                def lim(L=L):
                    import resource, signal
                    signal.signal(signal.SIGXFSZ, signal.SIG_IGN)
                    resource.setrlimit(resource.RLIMIT_FSIZE, (L, L))
                try:
                    rc3 = subprocess.run([b["snoopyctl"], cmd], env=env, capture_output=True, timeout=30, preexec_fn=lim).returncode
                except subprocess.TimeoutExpired:
                    rc3 = 998
                disk = read_file(path)
                bad = (disk or b"") not in (ok_old, ok_new) or (rc3 == 0 and (disk or b"") != ok_new)
                runs.append(dict(kind="short", at=L, trace=None, disk=disk, bad=bad, exit=rc3, sig="short-write:%s:%s" % (cmd, "exit0" if rc3 == 0 else "failed"),
                                 what="%s while the file system accepts only %d of %d bytes: exit %d, file holds %r (old %r, new %r)" % (cmd, L, len(new), rc3, disk, old, new)))
        # a stale temporary left by an earlier killed run (longer than the new content) must not leak into the result
        if layout in ("path4095", "bindmount"):
            shutil.rmtree(d, ignore_errors=True)
            return dict(beh=beh, layout=layout, calls=len(calls), events=[e for _, e in evs], runs=runs)
        reset()
        with open(path + ".tmp", "wb") as f:
            f.write(b"/stale/from/an/earlier/run.so\n" * 40)
        try:
            rc4 = subprocess.run([b["snoopyctl"], cmd], env=env, capture_output=True, timeout=30).returncode
        except subprocess.TimeoutExpired:
            rc4 = 998
        disk = read_file(path)
        bad = (disk or b"") != ok_new or rc4 != rc
        runs.append(dict(kind="stale-tmp", at=0, trace=None, disk=disk, bad=bad, exit=rc4, sig="stale-temporary:%s" % cmd,
                         what="%s with a stale ld.so.preload.tmp of 1200 bytes present: exit %d (without it %d), file holds %r, expected %r" % (cmd, rc4, rc, disk, new)))
        shutil.rmtree(d, ignore_errors=True)
        return dict(beh=beh, layout=layout, calls=len(calls), events=[e for _, e in evs], runs=runs)

    with ThreadPoolExecutor(max_workers=c.NCPU) as ex:
        results = list(ex.map(scenario, jobs))

    # contract: old or new at every crash point / fault
    tracefile = os.path.join(b["root"], "systrace.ndjson")
    nruns = 0
    nontrivial = set()
    idx = []
    with open(tracefile, "w") as f:
        for si, res in enumerate(results):
            for ri, ru in enumerate(res["runs"]):
                nruns += 1
                first = f.tell()
                for rec in (ru["trace"] or []):
                    f.write(json.dumps(rec) + "\n")
                    idx.append((si, ri))
                if ru["kind"] != "dry" and res["beh"][1]["disk"] != res["beh"][0]["disk"]:
                    nontrivial.add((si, ru["kind"], ru["at"], ru.get("errno")))
                if ru["bad"]:
                    rep.violation(ru["sig"] + ("" if res["layout"] == "plain" else ":" + res["layout"]), ({"symlink": "[ld.so.preload is a symbolic link] ", "path4095": "[the path of ld.so.preload is 4095 bytes long] ", "bindmount": "[ld.so.preload is a mount point of its own] "}.get(res["layout"], "")) + ru["what"],
                                  dict(initial=res["beh"][0]["disk"], command=res["beh"][1]["c"], layout=res["layout"],
                                                              injected=dict(kind=ru["kind"], call_index=ru["at"], call=ru.get("call"), errno=ru.get("errno")),
                                                              protocol_events=res["events"]))
    try:
        tv = c.run_tlc("PreloadSysTrace.tla", "PreloadSysTrace.cfg", workers=1, env={"TRACE": tracefile}, heap="8g")
        rep.cov["states"] += tv.distinct
        rep.cov["transitions"] += tv.generated
        verdict = json.loads(tv.printed[-1]) if tv.printed else None
    except c.MachineryError as e:
        verdict = None
        if not rep.violations:
            raise
        rep.drift.append("protocol trace validation could not be completed on a run that already violates the contract: " + str(e)[:200])
    if verdict is None:
        if not rep.violations:
            raise c.MachineryError("PreloadSysTrace produced no report")
        verdict = {"bad": [], "consumed": 0}
    rejected = sorted({idx[l - 1] for l in verdict["bad"]})
    for si, ri in rejected[:10]:
        ru = results[si]["runs"][ri]
        rep.drift.append("execution not a behaviour of the protocol model: %s; events %s" % (ru["what"][:160], [t["e"] for t in ru["trace"]]))
    rep.cov["protocol_trace_rejections"] = len(rejected)
    rep.cov["traces_validated_against_impl"] = nruns - len(rejected)
    rep.cov["evaluations"] = nruns
    rep.cov["distinct_nontrivial"] = len(nontrivial)
    rep.cov["rule"] = ("one evaluation = one strace'd snoopyctl run: a dry run, a SIGKILL on entry to system call k for every k, or "
                       "ENOSPC/EIO/EDQUOT injected into each call that touches the preload file or its temporary, a run under RLIMIT_FSIZE = L (short write) for cut positions L, "
                       "or a run with a stale temporary present; layouts: regular file, and symbolic link to the real file; "
                       "non-trivial = the command really rewrites the file; distinct = (initial file, command, kill/fault point, errno)")
    rep.cov["scenarios"] = [dict(init=r_["beh"][0]["disk"], cmd=r_["beh"][1]["c"], syscalls=r_["calls"], protocol=r_["events"]) for r_ in results][:40]
    for r_ in results[:3]:
        rep.sample(dict(init=r_["beh"][0]["disk"], cmd=r_["beh"][1]["c"], protocol=r_["events"], kill_points=len([x for x in r_["runs"] if x["kind"] == "kill"]),
                        faults=len([x for x in r_["runs"] if x["kind"] == "fault"])))
    rep.assumptions += ["strace -e inject=...:signal=SIGKILL delivers the kill on entry to the chosen call, so 'before call k' = 'after call k-1'",
                        "quick tier starts killing at the first call that mentions the preload file; thorough from the first call of the process",
                        "power-loss durability (fsync ordering) is modelled in the spec but not observable here"]
    return rep.finish()
