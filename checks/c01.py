"""C01 / C04 / C16 single-call behaviours: TLC model-checks spec/SnoopyCall.tla and generates every
(config file, call inputs, real-exec result) behaviour with the expectation computed by the contract operators;
each is replayed through the production wrapper (harness/xdrv + librec) and compared."""
import json, random, subprocess
from vlib import common as c
from checks import callflow as cf

PROPS = {"C01": "exec pass-through", "C04": "one faithful record", "C16": "no residue"}


def behaviour_key(h):
    return json.dumps([h["file"], h["call"], h["result"]], sort_keys=True)


def run_prop(prop, tier, seed):
    rep = c.Reporter(prop, tier, seed, "model_checking")
    rnd = random.Random(seed)
    b = c.build("prod", tag=prop, cwd_etc=True)
    rep.tlc(c.run_tlc("SnoopyCallMC.tla", "SnoopyCallMC.cfg"))
    rep.tlc(c.run_tlc("SnoopyCallMC.tla", "SnoopyCallMCnts.cfg"))
    if tier == "thorough":
        rep.tlc(c.run_tlc("SnoopyCallMC.tla", "SnoopyCallMCbig.cfg", heap="24g"))
    guards = {}
    gd = {"C01": ["exec_before_cleanup"], "C04": ["stdout_nobuf_flush"], "C16": ["leak_on_reassign", "carry_ints"]}[prop]
    for d in gd:
        guards[d] = c.run_tlc("SnoopyCallMC.tla", "SnoopyCallDefect_%s.cfg" % d, expect_violation=True).violated
    rep.cov["vacuity_guards"] = guards
    g = c.run_tlc("SnoopyCallMC.tla", "SnoopyCallGen1.cfg", heap="16g")
    rep.tlc(g)
    behs = [json.loads(x)[0] for x in g.printed]
    rnd.shuffle(behs)
    extra_cfg = {"C01": "SnoopyCallGenErrno.cfg", "C04": None, "C16": None}[prop]
    must = []
    for cfgname in ([extra_cfg] if extra_cfg else []) + (["SnoopyCallGenSyslog.cfg", "SnoopyCallGenBig.cfg"] if prop == "C04" else ["SnoopyCallGenBig.cfg"] if prop == "C01" else []):
        ge = c.run_tlc("SnoopyCallMC.tla", cfgname)
        rep.tlc(ge)
        must += [json.loads(x)[0] for x in ge.printed]
    n = (2500 if tier == "quick" else len(behs)) + len(must)
    # stratify: keep every (file, result) combination and every call shape at least once
    chosen, seen = [], set()
    for h in behs:
        k1 = (json.dumps(h["file"], sort_keys=True), h["result"] == "replaced")
        k2 = json.dumps(h["call"], sort_keys=True)
        if k1 not in seen or k2 not in seen:
            seen.add(k1); seen.add(k2); chosen.append(h)
    chosen = must + chosen
    ck = {behaviour_key(h) for h in chosen}
    rest = [h for h in behs if behaviour_key(h) not in ck] if tier == "thorough" else behs
    for h in rest:
        if len(chosen) >= n:
            break
        chosen.append(h)
    items = []
    for i, h in enumerate(chosen):
        f = dict(h["file"]); f["_expect"] = h["expect"]
        items.append(("b%d" % i, f, h["call"], h["result"]))
    c.log("[%s] replaying %d behaviours" % (prop, len(items)))
    obs, ns = cf.run_batches(b, items, b["root"] + "/run")
    c.log("[%s] replay done" % prop)
    if not ns:
        rep.assumptions.append("behaviours were replayed sequentially")
    nontriv = set()
    seen_sig = {}
    for (label, f, call, result), h in zip(items, chosen):
        o = obs.get(label)
        res = cf.evaluate(label, f, call, result, o)
        if h["expect"] or result == "replaced" or call["argv"] in ("a_null", "a_empty", "a_huge", "a_many"):
            nontriv.add(behaviour_key(h))
        for sig, what in res[prop]:
            fullsig = sig + ":" + (f["out"] if f["state"] == "ok" else f["state"])
            seen_sig[fullsig] = seen_sig.get(fullsig, 0) + 1
            if seen_sig[fullsig] > 3:
                continue                     # the same failure class has been confirmed and reported three times already
            # confirm in a fresh process before reporting
            o2, _ = cf.run_batches(b, [(label, f, call, result)], b["root"] + "/confirm", workers=1)
            res2 = cf.evaluate(label, f, call, result, o2.get(label))
            if not any(s2 == sig for s2, _ in res2[prop]):
                rep.assumptions.append("non-repeatable observation ignored: %s %s" % (sig, what[:100]))
                continue
            f2 = {k: v for k, v in f.items() if k != "_expect"}
            rep.violation(sig + ":" + (f2["out"] if f2["state"] == "ok" else f2["state"]), what,
                          dict(file=f2, ini=repr(cf.ini_for(f2, o["ctx"]) if o and "ctx" in o else None), call=call, result=result, expected_records=h["expect"]))
    if prop == "C01":
        # histories inside one process: the k-th call must reach the libc function of ITS kind with ITS vectors, whatever was called before
        # (execv after execve and the reverse; all 3-call histories over SnoopyCallMC!CallsSmall x FilesTwo)
        gh = c.run_tlc("SnoopyCallMC.tla", "SnoopyCallGenC01H.cfg", heap="16g")
        rep.tlc(gh)
        hb = [json.loads(x) for x in gh.printed]
        rnd.shuffle(hb)
        mixed = [h for h in hb if len({st["call"]["kind"] for st in h}) > 1]
        same = [h for h in hb if len({st["call"]["kind"] for st in h}) == 1]
        hb = mixed + same if tier == "thorough" else mixed[:300] + same[:60]
        hitems, hexp = [], {}
        for i, h in enumerate(hb):
            hitems.append(("h%d" % i, [(st["file"], st["call"], st["result"]) for st in h]))
            hexp["h%d" % i] = [st["expect"] for st in h]
        hobs = cf.run_hist(b, hitems, b["root"] + "/hist")
        for label, steps in hitems:
            for k, bucket, sig, what in cf.evaluate_hist(label, steps, hexp[label], hobs.get(label)):
                if bucket != "C01":
                    continue
                o2 = cf.run_hist(b, [(label, steps)], b["root"] + "/hconfirm", workers=1)
                if not any(r2[2] == sig and r2[0] == k and r2[1] == "C01" for r2 in cf.evaluate_hist(label, steps, hexp[label], o2.get(label))):
                    rep.assumptions.append("non-repeatable observation ignored: %s" % what[:120])
                    continue
                kinds = "-then-".join(st[1]["kind"] for st in steps[:k + 1][-2:])
                rep.violation("history:%s:%s" % (sig, kinds), what, dict(history=steps, failing_step=k))
            nontriv.add(json.dumps(steps, sort_keys=True))
        rep.cov["call_histories_replayed"] = len(hitems)
    if prop == "C04" and subprocess.run(["unshare", "-p", "-f", "--mount-proc", "true"], capture_output=True).returncode == 0:
        # the syslog header carries the caller's pid: every facility x level with pids of 1..7 digits (clone3 set_tid in a private pid namespace)
        gp = c.run_tlc("SnoopyCallMC.tla", "SnoopyCallGenPid.cfg")
        rep.tlc(gp)
        pb = [json.loads(x)[0] for x in gp.printed]
        rnd.shuffle(pb)
        if tier == "quick":
            pb = [h for h in pb if h["call"]["pid"] in ("p1000000", "p4194303")][:200] + [h for h in pb if h["call"]["pid"] not in ("p1000000", "p4194303")][:200]
        pitems = []
        for i, h in enumerate(pb):
            f = dict(h["file"]); f["_expect"] = h["expect"]
            pitems.append(("q%d" % i, f, h["call"], h["result"]))
        pobs, _ = cf.run_batches(b, pitems, b["root"] + "/pids", pidns=True)
        npid = 0
        for (label, f, call, result), h in zip(pitems, pb):
            o = pobs.get(label)
            want = int(call["pid"][1:])
            got = (o or {}).get("at", [{}])[0].get("pid") if o and o.get("at") else None
            if got != want:
                if len(rep.assumptions) < 30:
                    rep.assumptions.append("pid %d could not be arranged for %s (got %r): behaviour skipped" % (want, label, got))
                continue
            npid += 1
            nontriv.add(behaviour_key(h))
            for sig, what in cf.evaluate(label, f, call, result, o)[prop]:
                rep.violation("%s:devlog:pid%d-digits" % (sig, len(str(want))), "caller pid %d, facility %s, level %s: %s" % (want, f["fac"], f["lvl"], what),
                              dict(file={k: v for k, v in f.items() if k != "_expect"}, call=call, result=result, expected_records=h["expect"]))
        rep.cov["pid_header_behaviours"] = npid
        items = items + pitems[:npid]
    if prop == "C16":
        # runs of N consecutive identical calls in one process, for every config file state: nothing may accumulate
        N = 40 if tier == "quick" else 200
        files, seenf = [], set()
        for h in behs:
            k = json.dumps(h["file"], sort_keys=True)
            if k not in seenf:
                seenf.add(k)
                files.append(h["file"])
        call = {"kind": "execve", "path": "p_norm", "argv": "a_two", "envp": "e_one"}
        runs = [("r%d" % i, [(f, call, "ENOENT")] * N) for i, f in enumerate(files)]
        ob = cf.run_hist(b, runs, b["root"] + "/runs")
        for label, steps in runs:
            o = ob.get(label, {})
            st = o.get("steps", {})
            if len(st) < N or "pre" not in st.get(1, {}) or "pre" not in st.get(N - 1, {}):
                if o.get("child", {}).get("signal"):
                    rep.violation("repeat-crash", "%d consecutive calls under %r: the process died with signal %s" % (N, steps[0][0], o["child"]["signal"]), dict(file=steps[0][0]))
                else:
                    rep.assumptions.append("repeat run %s incomplete" % label)
                continue
            a, z = st[1]["pre"][0]["snap"], st[N - 1]["pre"][0]["snap"]
            for key in ("fds", "heap"):
                if a[key] != z[key]:
                    f0 = steps[0][0]
                    rep.violation("accumulates:%s:%s" % (key, f0["out"] if f0["state"] == "ok" else f0["state"]),
                                  "%d consecutive identical calls: %s before call 2 is %r, before call %d it is %r" % (N, key, a[key], N, z[key]), dict(file=f0, calls=N))
        rep.cov["repeat_runs"] = [len(runs), N]
        # the same runs with a data-source-heavy format (procfs readers, NSS lookups, resolver) in two process states: ordinary, and with a
        # /proc/<pid>/cgroup larger than the 10 KB the cgroup reader accepts (nested private cgroup v1 hierarchies, harness/bigcgroup.sh)
        fheavy = dict(next(f for f in files if f["state"] == "ok" and f["out"] == "file" and f["chain"] in ("none", "pass")), fmt="heavy")
        for sname, wrap in (("ordinary", None), ("cgroup-file-over-10KB", cf.bigcgroup_wrap)):
            label = "s-" + sname
            ob = cf.run_hist(b, [(label, [(fheavy, call, "ENOENT")] * N)], b["root"] + "/state-" + sname, workers=1, wrap=wrap)
            if 96 in ob.get("_rcs", []):
                rep.assumptions.append("process state %s cannot be arranged here (no cgroup v1 mounts): not exercised" % sname)
                continue
            st = ob.get(label, {}).get("steps", {})
            if len(st) < N or "pre" not in st.get(1, {}) or "pre" not in st.get(N - 1, {}):
                sig = ob.get(label, {}).get("child", {}).get("signal")
                if sig:
                    rep.violation("repeat-crash:" + sname, "%d consecutive calls with the heavy format, process state %s: the process died with signal %s" % (N, sname, sig), dict(state=sname))
                else:
                    rep.assumptions.append("process-state run %s incomplete" % sname)
                continue
            a, z = st[1]["pre"][0]["snap"], st[N - 1]["pre"][0]["snap"]
            for key in ("fds", "heap"):
                if a[key] != z[key]:
                    rep.violation("accumulates:%s:%s" % (key, sname), "%d consecutive identical calls (heavy format, process state %s): %s before call 2 is %r, before call %d it is %r" % (
                        N, sname, key, a[key], N, z[key]), dict(state=sname, calls=N, format=cf.FMT["heavy"].decode()))
        rep.cov["process_state_runs"] = 2
    rep.cov["traces_validated_against_impl"] = len(items)
    rep.cov["evaluations"] = len(items)
    rep.cov["distinct_nontrivial"] = len(nontriv)
    rep.cov["rule"] = ("behaviour = (config file state from SnoopyCallMC!FilesAll, call inputs from CallsAll, result of the real exec) "
                       "generated by TLC with the expected records; non-trivial = a record is expected, or the image is really "
                       "replaced, or the argv shape is NULL/empty/1 MiB/5000 entries; distinct by (file, call, result)")
    rep.cov["behaviours_generated"] = len(behs)
    for h in chosen[:3]:
        rep.sample(dict(file=h["file"], call=h["call"], result=h["result"], expect=h["expect"]))
    rep.assumptions += ["the recorder (librec.so) placed after libsnoopy.so in LD_PRELOAD is what dlsym(RTLD_NEXT) resolves to",
                        "the process runs as root in its own session with a pty as controlling terminal; /dev/log is redirected by the recorder's connect()"]
    return rep.finish()


def run(tier, seed, replay=None):
    return run_prop("C01", tier, seed)
