"""C02: no configuration or exec input can crash or corrupt the calling process (level: exploration).
A TLA+ specification does not decide memory safety of C; what this check does (DESIGN section 6): the length/offset models
(MessageFormat, Cmdline) are model-checked for WritesWithin, and MODEL-GENERATED inputs -- hostile configuration files from
spec/ConfigHostile.tla, format/limit cases from MessageFormat, boundary argument vectors from Cmdline, call shapes from SnoopyCall,
filter chains and uid lists -- are executed against an AddressSanitizer+UBSan build of the working tree; every data source and
filter is also called through the registry with a heap buffer of exactly n bytes for the sizes of spec/BufContract.tla."""
import json, os, random, re, subprocess
from concurrent.futures import ThreadPoolExecutor
from vlib import common as c, drv
from checks import callflow as cf, c05, c06, filters, c07, c14


def hostile_tokens(ctx):
    L = []
    a = lambda b_: L.append(b_)
    for n in (1000, 1005, 1006, 1007, 2500):
        a(b"message_format = " + b"a" * n)
    for n in (1022, 1023, 1024):
        a(b"k" * n)
    a(b'message_format = "'); a(b"message_format = '"); a(b'message_format = """'); a(b"message_format = \"'")
    a(b"output = :"); a(b"output = :x"); a(b"output = x:"); a(b"output = file:" + b"/p" * 2100); a(b"output = socket:" + b"s" * 200); a(b"output = file:"); a(b"output=::::")
    for v in (b"A", b"LO", b"LOG", b"LOG_", b"_", b""):
        a(b"syslog_facility = " + v)
    a(b"syslog_level = x"); a(b"syslog_level = LOG_"); a(b"syslog_level = ___E")
    for v in (b"2048m", b"99999999999999999999999", b"-1", b"1kk", b"4194304k", b"0x10", b"1e9"):
        a(b"log_message_max_length = " + v)
    a(b"datasource_message_max_length = 2147483648"); a(b"datasource_message_max_length = 255"); a(b"log_message_max_length = 255")
    a(b"\xef\xbb\xbfmessage_format = bom-in-the-middle"); a(b"message_format = a\x00b embedded nul"); a(b"\r"); a(b"   \t  ")
    a(b"[snoopy"); a(b"[" + b"s" * 100 + b"]"); a(b"[snoopy]"); a(b"n" * 60 + b" = v"); a(b"= value with empty key"); a(b"="); a(b":"); a(b"=error_logging = yes")
    a(b"  continuation value"); a(b"\t%{cmdline} continuation with tag"); a(b"  :"); a(b"  = x")
    a(b'message_format = "%{snoopy_literal:' + b"L" * 950 + b'}"'); a(b'message_format = "%{' + b"n" * 150 + b'}"'); a(b'message_format = "%{"'); a(b'message_format = "%{}"')
    a(b'message_format = "%{:}"'); a(b'message_format = "' + b"%{pid}" * 150 + b'"'); a(b'message_format = "%{env:' + b"E" * 990 + b'}"'); a(b'message_format = "%{datetime:' + b"%c" * 400 + b'}"')
    a(b'syslog_ident = "' + b"i" * 400 + b'"'); a(b'syslog_ident = "%{cmdline}%{cmdline}%{env_all}"'); a(b"error_logging = yes")
    a(b"filter_chain = exclude_uid:" + b"9" * 900); a(b"filter_chain = only_uid:,,,,,,,"); a(b"filter_chain = exclude_spawns_of:" + b"," * 500); a(b"filter_chain = " + b";" * 900)
    a(b"filter_chain = exclude_spawns_of"); a(b"filter_chain = only_uid:" + b"1," * 450)
    return L


def run(tier, seed, replay=None):
    rep = c.Reporter("C02", tier, seed, "exploration")
    rnd = random.Random(seed)
    b = c.build("asan", tag="C02", cwd_etc=True)
    total, nontriv = 0, 0
    asan_dir = os.path.join(b["root"], "asanlogs")
    os.makedirs(asan_dir)
    cf.SAN_ENV["ASAN_OPTIONS"] += ":log_path=" + os.path.join(asan_dir, "asan")
    cf.SAN_ENV["UBSAN_OPTIONS"] += ":log_path=" + os.path.join(asan_dir, "ubsan")

    def reports():
        out = []
        for f in sorted(os.listdir(asan_dir)):
            txt = open(os.path.join(asan_dir, f), errors="replace").read()
            m = re.search(r"(ERROR: AddressSanitizer: [^\n]*|runtime error: [^\n]*)", txt)
            fr = re.findall(r"#\d+ 0x[0-9a-f]+ in (\w+) ([^\s]+)", txt)
            where = next((("%s %s" % x) for x in fr if "/src/" in x[1] and "harness" not in x[1]), fr[0][0] if fr else "?")
            out.append(((m.group(1) if m else txt[:120]), where))
            os.unlink(os.path.join(asan_dir, f))
        return out

    # ---- (1) model checking of the length / offset arithmetic
    for k in "abe":
        rep.tlc(c.run_tlc("MessageFormatMC.tla", "MessageFormatMC_%s.cfg" % k))
    rep.tlc(c.run_tlc("CmdlineMC.tla", "CmdlineMC.cfg"))
    rep.cov["vacuity_guards"] = {d: c.run_tlc("MessageFormatMC.tla", "MessageFormatDefect_%s.cfg" % d, expect_violation=True).violated for d in ("DefAppend", "DefTag")}

    # ---- (2) hostile configuration files x call shapes
    ctx0 = cf.Ctx(b, os.path.join(b["root"], "tok"))
    toks = hostile_tokens(ctx0)
    open(os.path.join(c.SPEC, "ConfigHostileRun.%d.cfg" % os.getpid()), "w").write(
        'SPECIFICATION Spec\nCONSTANTS\n  NTokens = %d\n  MaxLines = 2\n  Shapes = {"normal", "nullargv"}\nINVARIANTS Dump\nCHECK_DEADLOCK FALSE\n' % len(toks))
    g = c.run_tlc("ConfigHostile.tla", "ConfigHostileRun.%d.cfg" % os.getpid(), heap="8g")
    os.unlink(os.path.join(c.SPEC, "ConfigHostileRun.%d.cfg" % os.getpid()))
    rep.tlc(g)
    hs = [json.loads(x) for x in g.printed]
    if tier == "quick":
        one = [h for h in hs if len(h["file"]) <= 1]
        two = [h for h in hs if len(h["file"]) == 2]
        rnd.shuffle(two)
        hs = one + two[:2500]
    for k in range(200 if tier == "quick" else 2000):                 # three-line files, sampled
        hs.append(dict(file=[rnd.randint(1, len(toks)) for _ in range(3)], shape=rnd.choice(["normal", "nullargv"])))
    workers = c.NCPU
    ctxs = [cf.Ctx(b, os.path.join(b["root"], "h%d" % i)) for i in range(workers)]

    def one_batch(i):
        ctx = ctxs[i]
        s = drv.Script()
        s.add("sinkfile", "file", drv.hx(ctx.log)).add("sinkdevlog", "devlog", drv.hx(ctx.devlog)).envp([b"A=1"]).add("ret", -1, 2).add("snap", 0).add("quiet", 2)
        mine = list(range(i, len(hs), workers))
        for k in mine:
            h = hs[k]
            body = b"\n".join(toks[t - 1] for t in h["file"])
            ini = b"[snoopy]\noutput = file:" + ctx.log + b"\n" + body + (b"\n" if k % 3 else b"")
            s.add("emit", "item:c%d" % k).add("fork").add("ini", drv.hx(ini)).path(ctx.helper)
            if h["shape"] == "normal":
                s.argv([b"prog", b"x" * 3000, b"y"])
            else:
                s.add("argv", "null")
            s.call("execve", "c%d" % k).add("endfork")
        sp, op = os.path.join(ctx.w, "script"), os.path.join(ctx.w, "out")
        open(sp, "w").write(s.text())
        if os.path.exists(op):
            os.unlink(op)
        env = dict({"PATH": "/usr/bin:/bin", "LD_PRELOAD": cf.preload(b), "XDRV_INI": os.path.join(ctx.etc, "snoopy.ini")}, **cf.SAN_ENV)
        try:
            subprocess.run([os.path.join(c.BUILD, "xdrv"), sp, op], env=env, capture_output=True, timeout=2400, cwd=ctx.w, stdin=subprocess.DEVNULL)
        except subprocess.TimeoutExpired:
            pass
        res, cur = {}, None
        for line in (open(op, errors="replace") if os.path.exists(op) else []):
            try:
                e = json.loads(line)
            except ValueError:
                continue
            if e["ev"] == "mark" and e["label"].startswith("item:"):
                cur = e["label"][5:]
                res[cur] = dict(rets=0, signal=0, nreal=None)
            elif cur and e["ev"] == "ret":
                res[cur]["rets"] += 1
                res[cur]["nreal"] = e["n_real"]
            elif cur and e["ev"] == "child":
                res[cur]["signal"] = e.get("signal") or 0
        return res

    with ThreadPoolExecutor(max_workers=workers) as ex:
        obs = {}
        for part in ex.map(one_batch, range(workers)):
            obs.update(part)
    sanrep = reports()
    for k, h in enumerate(hs):
        total += 1
        if len(h["file"]) >= 2:
            nontriv += 1
        o = obs.get("c%d" % k)
        bad = None
        if o is None:
            bad = "no observation (driver died?)"
        elif o["signal"]:
            bad = "the calling process died with signal %d" % o["signal"]
        elif o["rets"] != 1 or o["nreal"] != 1:
            bad = "the call did not reach the real exec exactly once (returns %d, real execs %s)" % (o["rets"], o["nreal"])
        if bad:
            lines = [toks[t - 1] for t in h["file"]]
            kinds = "+".join(re.sub(rb"[^a-z_=:\[\" ]", b"", l[:18]).decode() or "bytes" for l in lines)
            rep.violation("config:%s:%s" % (kinds[:60], h["shape"]), "snoopy.ini lines %r (call shape %s): %s" % ([l[:50] for l in lines], h["shape"], bad),
                          dict(lines=[repr(l[:200]) for l in lines], line_lengths=[len(l) for l in lines], shape=h["shape"], sanitizer=[r for r in sanrep][:3]))
    leftover = [r for r in sanrep]
    if leftover and not rep.violations:
        for msg, where in leftover[:5]:
            rep.violation("sanitizer:%s" % where.split(" ")[0], "sanitizer report during the hostile-configuration runs: %s at %s" % (msg, where), dict(report=msg, where=where))

    # ---- (3) model-generated format / limit cases, boundary argument vectors, filter inputs under the sanitizers
    for k, cap in (("b", 700), ("e", 60)):
        g2 = c.run_tlc("MessageFormatMC.tla", "MessageFormatGen2_%s.cfg" % k, heap="8g")
        rep.tlc(g2)
        hh = [json.loads(x) for x in g2.printed]
        rnd.shuffle(hh)
        hh = hh[:cap if tier == "quick" else cap * 4]
        cases = []
        for i, h in enumerate(hh):
            cs = c05.Case(h)
            if b'"' in cs.src or len(cs.src) > 995:
                continue
            cases.append(("m%s%d" % (k, i), cs, h["D"], h["M"]))
        ob = c05.run_cases(b, "message", cases, os.path.join(b["root"], "fmt-" + k))
        for label, cs, D, M in cases:
            total += 1
            nontriv += 1
            msg, prob = c05.observed_message("message", cs, ob.get(label))
            if prob and ("signal" in prob or "never reached" in prob):
                shape = "+".join(t["t"] for t in cs.h["fmt"])
                rep.violation("format:%s" % shape, "format %r... with limits D=%d M=%d under the sanitizers: %s" % (cs.src[:60], D, M, prob), dict(tokens=cs.h["fmt"], D=D, M=M))
    for msg, where in reports()[:5]:
        rep.violation("sanitizer:%s" % where.split(" ")[0], "sanitizer report while formatting model-generated formats: %s at %s" % (msg, where), dict(report=msg, where=where))
    sub = c.Reporter("C02", tier, seed, "exploration", silent=True)
    nb = c06.boundary_family(sub, b, tier)
    total += nb
    nontriv += nb
    for sig, what, path in sub.violations:
        rep.violation("cmdline:" + sig, "boundary argument vector under the sanitizers: " + what, dict(detail=what))
    for msg, where in reports()[:5]:
        rep.violation("sanitizer:%s" % where.split(" ")[0], "sanitizer report for boundary argument vectors: %s at %s" % (msg, where), dict(report=msg, where=where))

    # ---- (4) every data source / filter through the registry with an exactly-sized heap buffer
    src = b["src"]
    probe = os.path.join(b["root"], "dsprobe")
    cmd = ["gcc", "-g", "-O1", "-fsanitize=address,undefined", "-fno-sanitize-recover=undefined", "-w", "-I" + src + "/src", "-I" + src, "-o", probe,
           os.path.join(c.VERIF, "harness/dsprobe.c"), src + "/src/.libs/libsnoopy-no-entrypoint.a", "-lpthread", "-ldl"]
    r = subprocess.run(cmd, capture_output=True, text=True)
    if r.returncode:
        raise c.MachineryError("cannot build the data-source probe: " + r.stderr[-1500:])
    pini = os.path.join(b["root"], "probe.ini")
    open(pini, "w").write("[snoopy]\n")
    penv = dict({"PATH": "/usr/bin:/bin"}, **{k: v.split(":log_path")[0] for k, v in cf.SAN_ENV.items()})
    lst = subprocess.run([probe, pini], input="list\n", capture_output=True, text=True, env=penv, timeout=60).stdout.split("\n")
    names = [l[3:] for l in lst if l.startswith("DS ")]
    fnames = [l[4:] for l in lst if l.startswith("FLT ")]
    nf = os.path.join(b["root"], "names.ndjson")
    open(nf, "w").write(json.dumps(names) + "\n")
    g3 = c.run_tlc("BufContract.tla", "BufContract.cfg", env={"NAMES_FILE": nf}, heap="8g")
    rep.tlc(g3)
    bc = [json.loads(x) for x in g3.printed]
    if tier == "quick":
        rnd.shuffle(bc)
        keep = [x for x in bc if x["n"] in (257, 258, 2049)][:3000] + [x for x in bc if x["n"] > 60000][:300]
        bc = keep
    bystate = {}
    for x in bc:
        bystate.setdefault(x["st"], []).append(x)

    def probe_state(st):
        cases = bystate[st]
        inp = ("state %s\n" % st if st != "normal" else "") + "".join("ds %s %d %s\n" % (x["ds"], x["n"], x["arg"]) for x in cases)
        if st == "normal":
            inp += "".join("flt %s %s\n" % (f, a) for f in fnames for a in ("empty", "x", "zero", "long", "pct"))
        try:
            p = subprocess.run([probe, pini], input=inp, capture_output=True, text=True, env=penv, timeout=1200, errors="replace")
            return st, p.returncode, p.stdout, p.stderr
        except subprocess.TimeoutExpired:
            return st, -999, "", "timeout"

    with ThreadPoolExecutor(max_workers=6) as ex:
        for st, rc, out, err in ex.map(probe_state, list(bystate)):
            lines = out.split("\n")
            cur = None
            for l in lines:
                if l.startswith("BEGIN "):
                    cur = l[6:]
                    total += 1
                    nontriv += 1
                elif l.startswith("END ") and cur:
                    m = re.match(r"END ret=(-?\d+) len=(\d+) nul=(\d)", l)
                    parts = cur.split()
                    if parts[0] == "ds" and m:
                        n = int(parts[2])
                        if not (m.group(3) == "1" and int(m.group(2)) < n):
                            rep.violation("bufcontract:%s:%s" % (parts[1], st), "data source %s with a %d-byte buffer (arg class %s, state %s) left len=%s nul=%s" % (
                                parts[1], n, parts[3], st, m.group(2), m.group(3)), dict(case=cur, state=st))
                    cur = None
            if rc != 0:
                m = re.search(r"(ERROR: AddressSanitizer: [^\n]*|runtime error: [^\n]*)", err)
                fr = re.findall(r"#\d+ 0x[0-9a-f]+ in (\w+) ([^\s]+)", err)
                where = next((("%s %s" % x) for x in fr if "/src/" in x[1] and "dsprobe" not in x[1]), "?")
                what = m.group(1) if m else ("exit status %s" % rc)
                dsn = (cur or "?").split()[1] if cur else "?"
                rep.violation("probe:%s:%s" % (dsn, st), "calling '%s' in process state %s: %s (%s)" % (cur, st, what, where), dict(case=cur, state=st, stderr=err[-1500:]))
    # ---- (5) the same registry calls on the production build under valgrind memcheck: use of uninitialised memory is undefined behaviour
    # the sanitizers above cannot see (it shows as bytes after the value only when the stack happens to be dirty)
    bp = c.build("prod", tag="C02p")
    vprobe = os.path.join(bp["root"], "dsprobe-plain")
    r = subprocess.run(["gcc", "-g", "-O0", "-w", "-I" + bp["src"] + "/src", "-I" + bp["src"], "-o", vprobe, os.path.join(c.VERIF, "harness/dsprobe.c"),
                        bp["src"] + "/src/.libs/libsnoopy-no-entrypoint.a", "-lpthread", "-ldl"], capture_output=True, text=True)
    if r.returncode:
        raise c.MachineryError("cannot build the plain data-source probe: " + r.stderr[-1500:])
    vcases = {}
    for x in bc:
        if x["n"] in (257, 2049):
            vcases.setdefault(x["st"], {})[(x["ds"], x["arg"])] = x
    for st in bystate:
        for dsn in names:                 # every data source at least once per state
            vcases.setdefault(st, {}).setdefault((dsn, "x"), dict(ds=dsn, n=2049, arg="x", st=st))

    def vg_state(st):
        cases = list(vcases[st].values())
        if tier == "quick":
            cases = cases[:120]
        inp = ("state %s\n" % st if st != "normal" else "") + "".join("ds %s %d %s\n" % (x["ds"], x["n"], x["arg"]) for x in cases)
        try:
            p = subprocess.run(["valgrind", "-q", "--log-fd=1", "--error-exitcode=0", "--num-callers=12", vprobe, pini], input=inp, capture_output=True, text=True,
                               env={"PATH": "/usr/bin:/bin"}, timeout=1500, errors="replace")
            return st, len(cases), p.stdout
        except subprocess.TimeoutExpired:
            return st, 0, ""

    nvg = 0
    import shutil
    if not shutil.which("valgrind"):
        rep.assumptions.append("valgrind is not installed: the memcheck pass over the registry calls was skipped")
        vcases = {}
    with ThreadPoolExecutor(max_workers=c.NCPU) as ex:
        for st, ncase, out in ex.map(vg_state, list(vcases)):
            nvg += ncase
            cur, block = None, []
            def flush():
                if not block:
                    return
                head = re.sub(r"^==\d+== ", "", block[0])
                fr = [re.sub(r"^==\d+==\s+(at|by) 0x[0-9A-F]+: ", "", l) for l in block[1:] if " at 0x" in l or " by 0x" in l]
                where = next((f for f in fr if re.search(r"\((?!dsprobe)[\w-]+\.c:\d+\)", f) and "snoopy" in f), fr[0] if fr else "?")
                if not any("snoopy" in f and "dsprobe.c" not in f for f in fr):
                    return                                  # not inside the library (the probe's own strlen of the result counts as inside: see below)
                dsn = (cur or "? ?").split()[1]
                rep.violation("memcheck:%s:%s" % (dsn, where.split(" ")[0]), "valgrind memcheck, calling '%s' in process state %s: %s at %s" % (cur, st, head, where),
                              dict(case=cur, state=st, report="\n".join(block[:14])))
            for l in out.split("\n"):
                if l.startswith("BEGIN "):
                    flush(); block = []
                    cur = l[6:]
                elif re.match(r"^==\d+== \S", l) and not re.match(r"^==\d+==\s+(at|by) ", l):
                    flush()
                    block = [l]
                elif re.match(r"^==\d+==\s+(at|by) ", l) and block:
                    block.append(l)
            flush()
    total += nvg
    rep.cov["memcheck_calls"] = nvg

    # ---- (5) the optional syslog output (--enable-output-syslog): glibc's syslog(3) keeps per-process state (ident POINTER, options,
    # facility). The recorder stands in for openlog/syslog/closelog and keeps that state; when the real exec is entered and when the
    # call returns, the caller's syslog state must be what it was before (closed, no ident pointer into a dead frame of the wrapper).
    gsl = c.run_tlc("SyslogOutput.tla", "SyslogOutputMC.cfg")
    rep.tlc(gsl)
    sl_allowed = {(x["pass"], x["open"], x["msgs"]) for x in (json.loads(y) for y in gsl.printed)}      # what SyslogOutput.tla lets the harness see at the real exec
    if len(sl_allowed) != 2:
        raise c.MachineryError("SyslogOutput.tla: unexpected observation set %r" % (sl_allowed,))
    rep.cov["vacuity_guards"].update({d: c.run_tlc("SyslogOutput.tla", "SyslogOutputDefect_%s.cfg" % d, expect_violation=True).violated for d in ("NoClose", "TwoMessages", "LogWhenFiltered")})
    bs = c.build("asan", tag="C02sl", extra_conf=["--enable-output-syslog"])
    long_id = b"I" * 300
    slcases = [
        ("d", b"", None, None, None),
        ("f1", b"syslog_facility = LOCAL3\nsyslog_level = DEBUG\n", 19 << 3, 7, None),
        ("f2", b"syslog_facility = daemon\nsyslog_level = LOG_ERR\nsyslog_ident = myident\n", 3 << 3, 3, b"myident"),
        ("f3", b'syslog_ident = "%{snoopy_literal:' + long_id + b'}"\nsyslog_level = warning\n', None, 4, long_id[:255]),
        ("f4", b'syslog_ident = ""\nsyslog_facility = KERN\nsyslog_level = EMERG\n', 0, 0, b""),
        ("f5", b"syslog_ident = %{nosuchsource}\n", None, None, None),
        ("flt", b"filter_chain = exclude_uid:0\n", None, None, None),
        ("big", b"datasource_message_max_length = 4000\nlog_message_max_length = 4000\n", None, None, None),
    ]
    s = drv.Script()
    s.envp([b"A=1"]).add("snap", 0).add("quiet", 2).path(b"/nonexistent/prog")
    for name, extra, fac, lvl, ident in slcases:
        msgfmt = b'"%{snoopy_literal:' + (b"M" * 900 if name == "big" else b"hello " + name.encode()) + b'}' + (b'%{snoopy_literal:' + b"N" * 900 + b'}' if name == "big" else b"") + b'"'
        ini = b"[snoopy]\noutput = syslog\nmessage_format = " + msgfmt + b"\n" + extra
        s.add("emit", "item:" + name).add("fork").add("ini", drv.hx(ini))
        s.add("ret", -1, 2).argv([b"prog", b"a"]).call("execve", name + ".1")
        s.add("ret", -1, 13).call("execv", name + ".2")
        s.add("ret", 0, 0).argv(None).call("execve", name + ".3")
        s.add("endfork")
    # every hostile line token once more, this time in front of the syslog output
    for ti, tk in enumerate(toks):
        s.add("emit", "item:tok%d" % ti).add("fork").add("ini", drv.hx(b"[snoopy]\noutput = syslog\n" + tk + b"\n"))
        s.add("ret", -1, 2).argv([b"prog", b"x" * 3000, b"y"]).call("execve", "tok%d.1" % ti).add("endfork")
    r = drv.run_script(bs, s, os.path.join(bs["root"], "sl"), tag="sl", timeout=600, env_extra={"REC_SYSLOG": "1"})
    cur, seen = None, {}
    for e in r["events"]:
        if e["ev"] == "mark" and e["label"].startswith("item:"):
            cur = e["label"][5:]
            seen[cur] = dict(rets=[], signal=0)
        elif cur and e["ev"] == "ret":
            seen[cur]["rets"].append(e)
        elif cur and e["ev"] == "child":
            seen[cur]["signal"] = e.get("signal") or 0
    for name, extra, fac, lvl, ident in slcases:
        total += 3
        nontriv += 3
        o = seen.get(name)
        bad = []
        if o is None:
            bad.append("no observation (driver died?)")
        elif o["signal"]:
            bad.append("the calling process died with signal %d" % o["signal"])
        elif len(o["rets"]) != 3:
            bad.append("%d of 3 calls returned" % len(o["rets"]))
        else:
            for e in o["rets"]:
                sl = e.get("syslog") or {}
                want = 0 if name == "flt" else 1
                for when in ("open_at_exec", "open_after"):
                    if (bool(want), bool(sl.get(when)), sl.get("msgs")) not in sl_allowed:
                        bad.append("%s: observation (pass=%s, %s=%s, msgs=%s) is not a state of SyslogOutput.tla at the real exec" % (e["label"], bool(want), when, sl.get(when), sl.get("msgs")))
                if e["n_real"] != 1:
                    bad.append("%s: real exec entered %d times" % (e["label"], e["n_real"]))
                if sl.get("open_at_exec") != 0 or sl.get("open_after") != 0:
                    bad.append("%s: the caller's syslog state is left open (ident pointer into the wrapper's dead frame) at the real exec / after return: %s/%s" % (e["label"], sl.get("open_at_exec"), sl.get("open_after")))
                if sl.get("msgs") != want or sl.get("opens") != sl.get("closes") or sl.get("opens", 0) > 1:
                    bad.append("%s: %s syslog messages, %s openlog, %s closelog (wanted %d message inside one openlog/closelog pair)" % (e["label"], sl.get("msgs"), sl.get("opens"), sl.get("closes"), want))
                if want and lvl is not None and (sl.get("pri") & 7) != lvl:
                    bad.append("%s: level %s instead of %d" % (e["label"], sl.get("pri"), lvl))
                if want and fac is not None and sl.get("fac") != fac:
                    bad.append("%s: facility %s instead of %d" % (e["label"], sl.get("fac"), fac))
                if want and ident is not None and bytes.fromhex(sl.get("ident", "")) != ident:
                    bad.append("%s: ident %r.. (%d bytes) instead of %r.. (%d bytes)" % (e["label"], bytes.fromhex(sl.get("ident", ""))[:20], len(sl.get("ident", "")) // 2, ident[:20], len(ident)))
                if want and name != "big" and bytes.fromhex(sl.get("last", "")) != b"hello " + name.encode():
                    bad.append("%s: message %r" % (e["label"], bytes.fromhex(sl.get("last", ""))[:40]))
        if bad:
            rep.violation("syslogoutput:%s" % name, "output = syslog (build with --enable-output-syslog), configuration %r: %s" % (extra[:60], "; ".join(bad[:4])), dict(config=repr(extra[:200]), problems=bad[:10]))
    for ti, tk in enumerate(toks):
        total += 1
        o = seen.get("tok%d" % ti)
        bad = None
        if o is None:
            bad = "no observation (driver died?)"
        elif o["signal"]:
            bad = "the calling process died with signal %d" % o["signal"]
        elif len(o["rets"]) != 1 or o["rets"][0]["n_real"] != 1:
            bad = "the call did not reach the real exec exactly once"
        else:
            sl = o["rets"][0].get("syslog") or {}
            if sl.get("open_at_exec") != 0 or sl.get("open_after") != 0 or sl.get("opens") != sl.get("closes") or sl.get("msgs", 0) > 1:
                bad = "syslog(3) state of the caller after the call: %r" % ({k: sl.get(k) for k in ("open_at_exec", "open_after", "opens", "closes", "msgs")},)
        if bad:
            kind = re.sub(rb"[^a-z_=:\[\" ]", b"", tk[:18]).decode() or "bytes"
            rep.violation("syslogoutput:config:%s" % kind, "output = syslog with the snoopy.ini line %r: %s" % (tk[:60], bad), dict(line=repr(tk[:200]), line_length=len(tk)))
    for f in sorted(os.listdir(os.path.join(bs["root"], "sl"))):
        if ".asan" in f or ".ubsan" in f:
            txt = open(os.path.join(bs["root"], "sl", f), errors="replace").read()
            m = re.search(r"(ERROR: AddressSanitizer: [^\n]*|runtime error: [^\n]*)", txt)
            rep.violation("sanitizer:syslogoutput", "sanitizer report with output = syslog: %s" % (m.group(1) if m else txt[:150]), dict(report=txt[:1500]))
    rep.cov["syslog_output_calls"] = 3 * len(slcases) + len(toks)
    rep.cov["evaluations"] = total
    rep.cov["traces_validated_against_impl"] = total
    rep.cov["distinct_nontrivial"] = nontriv
    rep.cov["hostile_line_tokens"] = len(toks)
    rep.cov["data_sources_probed"] = len(names)
    rep.cov["rule"] = ("evaluation = one execution of the ASan+UBSan build: a hostile snoopy.ini (<= 2 lines exhaustively, 3 sampled, over %d line tokens) x call shape; a "
                       "model-generated format/limit case; a boundary argument vector; or one registry call of a data source / filter with an exactly-sized heap buffer "
                       "(sizes 257..1 MiB+1, 8 argument classes, 11 process states incl. environ==NULL and 253..255-byte login names; the same calls on the production build under valgrind memcheck); or a call with output = syslog on a --enable-output-syslog build with the recorder keeping the syslog(3) state; non-trivial = everything except single-line files" % len(toks))
    rep.sample(dict(hostile_file=[repr(toks[t - 1][:60]) for t in hs[len(hs) // 2]["file"]], shape=hs[len(hs) // 2]["shape"]))
    rep.sample(dict(buffer_case=bc[0]))
    rep.assumptions += ["memory safety is observed by AddressSanitizer/UBSan on executions chosen by the models; it is not proved (a TLA+ model does not decide UB of C)",
                        "'all byte strings' is approached through a token alphabet, not random bytes", "invalid pointers and allocation failure are outside the property's domain"]
    return rep.finish()
