"""C12: identity and environment data sources report the process's true state (spec/ProcState*.tla).
TLC enumerates sequences of state-changing system calls (setresgid/setresuid with pairwise different ids, setsid, stdin on a
pty / pipe / null, chdir into deep and renamed directories, environment shapes, forks with awkward process names) ending in exec
calls, together with the contract table Reports (data source -> state component). The harness performs the calls for real inside a
private pid namespace, reads the state back independently (harness/xdrv `procstate`: getresuid, /proc/self/*, readlink) and
compares every data source's text in the logged record with that component."""
import json, os, pwd, grp, random, re, subprocess, time
from concurrent.futures import ThreadPoolExecutor
from vlib import common as c, drv
from checks import callflow as cf, filters

SEP = b"|~|"
FIELDS = [("login", b"%{login}"), ("uid", b"%{uid}"), ("euid", b"%{euid}"), ("gid", b"%{gid}"), ("egid", b"%{egid}"), ("username", b"%{username}"), ("eusername", b"%{eusername}"),
          ("group", b"%{group}"), ("egroup", b"%{egroup}"), ("pid", b"%{pid}"), ("ppid", b"%{ppid}"), ("sid", b"%{sid}"), ("tid_kernel", b"%{tid_kernel}"),
          ("tid", b"%{tid}"), ("env", b"%{env:XVAR}"), ("cwd", b"%{cwd}"), ("hostname", b"%{hostname}"), ("tty", b"%{tty}"), ("tty_uid", b"%{tty_uid}"), ("tty_username", b"%{tty_username}"),
          ("envmissing", b"%{env:NOSUCHVAR}"), ("cgroup0", b"%{cgroup:0}"), ("cgroupnone", b"%{cgroup:nosuchcontroller}"),
          ("rpname", b"%{rpname}"), ("timestamp", b"%{timestamp}"), ("ms", b"%{timestamp_ms}"), ("us", b"%{timestamp_us}"), ("datetime", b"%{datetime}"),
          ("dt_date", b"%{datetime:%Y-%m-%d %H}"), ("dt_epoch", b"%{datetime:%s}"), ("dt_zone", b"%{datetime:%z}"), ("version", b"%{snoopy_version}"), ("env_all", b"%{env_all}")]
FORKNAME = {"plain": b"worker", "paren": b"w(3) x)", "space": b"a b"}
HOSTS = {"h1": b"h", "h63": b"h63-" + b"a" * 59, "h64": b"h64-" + b"b" * 60}
LONGCOMP, LONGCOUNT = b"L" * 250, 20          # 20 x 251 bytes below the work directory: longer than PATH_MAX
DEFAULT_CWD_RE = re.compile(rb" cwd:(.*)\]: ", re.S)
TZS = ["UTC", "EST5EDT,M3.2.0,M11.1.0", "<+0330>-3:30"]


def name_of(uid):
    try:
        return pwd.getpwuid(uid).pw_name
    except KeyError:
        return None


def gname_of(gid):
    try:
        return grp.getgrgid(gid).gr_name
    except KeyError:
        return None


def build_script(ctx, cases):
    s = drv.Script()
    s.add("sinkfile", "file", drv.hx(ctx.log)).add("sinkdevlog", "devlog", drv.hx(ctx.devlog)).add("chmodpath", drv.hx(ctx.devlog), "666").add("ptypair")
    s.path(ctx.helper).argv([b"prog", b"x"]).envp([b"A=1"]).add("ret", -1, 2).add("snap", 0).add("dirtystack", 200000)
    fmt = SEP.join(k.encode() + b"=" + v for k, v in FIELDS)
    ini = b'[snoopy]\nmessage_format = "' + fmt + b'"\noutput = file:' + ctx.log + b"\n"
    deep = os.path.join(ctx.w, "deep", *["d%02d-%s" % (i, "x" * 40) for i in range(18)])
    os.makedirs(os.path.join(deep, "etc"), exist_ok=True)
    open(os.path.join(deep, "etc", "snoopy.ini"), "wb").write(ini)
    for label, steps, topname, tz in cases:
        if any(st["a"] == "cwd" and st["to"] == "toolong" for st in steps):
            os.makedirs(os.path.join(ctx.w, "long-" + label), exist_ok=True)
            os.chmod(os.path.join(ctx.w, "long-" + label), 0o777)
        rdir = os.path.join(ctx.w, "ren-" + label)
        os.makedirs(os.path.join(rdir, "etc"), exist_ok=True)
        os.chmod(rdir, 0o777)
        open(os.path.join(rdir, "etc", "snoopy.ini"), "wb").write(ini)      # the library finds its config relative to the cwd (see vlib.common.build)
        s.add("emit", "item:" + label).add("fork").add("name", drv.hx(topname)).add("ini", drv.hx(ini))
        s.add("envset", drv.hx(b"TZ"), drv.hx(tz.encode())).add("envset", drv.hx(b"XVAR"), drv.hx(b"x value = with equals\nand a second line"))
        s.add("envset", drv.hx(b"PWD"), drv.hx(b"/usr/share")).add("envset", drv.hx(b"HOSTNAME"), drv.hx(b"stale-host"))   # stale hints a data source must not trust
        nforks, ncall = 0, 0
        for st in steps:
            a = st["a"]
            if a == "gids":
                s.add("gids", st["r"], st["e"], st["s"])
            elif a == "ids":
                s.add("nogroups").add("ids", st["r"], st["e"], st["s"])
            elif a == "setsid":
                s.add("setsid")
            elif a == "stdin":
                s.add("stdin", st["to"])
            elif a == "cwd":
                if st["to"] == "work":
                    s.add("chdir", drv.hx(ctx.w.encode()))
                elif st["to"] == "deep":
                    s.add("chdir", drv.hx(deep.encode()))
                elif st["to"] == "renamed":
                    s.add("chdir", drv.hx(rdir.encode())).add("rename", drv.hx(rdir.encode()), drv.hx((rdir + "-moved").encode()))
                elif st["to"] == "deleted":                 # no file can live in a removed directory: the call runs on the built-in defaults (devlog sink)
                    gone = os.path.join(ctx.w, "gone-" + label)
                    s.add("mkdirp", drv.hx(gone.encode())).add("chdir", drv.hx(gone.encode())).add("rmdir", drv.hx(gone.encode()))
                else:
                    s.add("chdirdeep", drv.hx(os.path.join(ctx.w, "long-" + label).encode()), LONGCOUNT, drv.hx(LONGCOMP))
                    s.add("mkdirp", drv.hx(b"etc")).add("writefile", drv.hx(b"etc/snoopy.ini"), drv.hx(ini))
            elif a == "host":
                s.add("sethostname", drv.hx(HOSTS[st["to"]]))
            elif a == "env":
                to = st["to"]
                if to == "empty":
                    s.add("envclear").add("envset", drv.hx(b"TZ"), drv.hx(tz.encode()))     # libc reads TZ once per process: keep it stable
                    s.add("envset", drv.hx(b"REC_DEVLOG"), drv.hx(ctx.devlog))
                elif to == "sudo":
                    s.add("envset", drv.hx(b"SUDO_USER"), drv.hx(b"sudoer")).add("envset", drv.hx(b"LOGNAME"), drv.hx(b"lognamer"))
                elif to == "logname":
                    s.add("envunset", drv.hx(b"SUDO_USER")).add("envset", drv.hx(b"LOGNAME"), drv.hx(b"lognamer"))
                elif to == "sudo254":
                    s.add("envset", drv.hx(b"SUDO_USER"), drv.hx(b"s" * 254)).add("envset", drv.hx(b"LOGNAME"), drv.hx(b"lognamer"))
                elif to == "logname300":
                    s.add("envunset", drv.hx(b"SUDO_USER")).add("envset", drv.hx(b"LOGNAME"), drv.hx(b"l" * 300))
                elif to == "huge":
                    s.add("envpat", drv.hx(b"HUGE"), 5000, 5)
                elif to == "noeq":
                    s.add("envraw", drv.hx(b"NOEQUALSSIGN"), drv.hx(b"XVAR=second=value"), drv.hx(b"TZ=" + tz.encode()), drv.hx(b"REC_DEVLOG=" + ctx.devlog))
                else:
                    s.add("envunset", drv.hx(b"SUDO_USER")).add("envunset", drv.hx(b"LOGNAME")).add("envunset", drv.hx(b"HUGE"))
            elif a == "fork":
                s.add("fork").add("name", drv.hx(FORKNAME[st["name"]]))
                nforks += 1
            elif a == "call":
                ncall += 1
                lab = "%s#%d" % (label, ncall)
                s.add("procstate", lab).call("execve", lab)
        for _ in range(nforks):
            s.add("endfork")
        s.add("endfork")
    return s


def run_cases(b, cases, workdir):
    workers = c.NCPU
    batches = [cases[i::workers] for i in range(workers)]
    batches = [x for x in batches if x]
    ctxs = [cf.Ctx(b, os.path.join(workdir, "w%d" % i)) for i in range(len(batches))]
    can_ns = subprocess.run(["unshare", "-u", "-p", "-f", "--mount-proc", "true"], capture_output=True).returncode == 0

    def one(i):
        ctx = ctxs[i]
        filters.open_tree(ctx.w, b["root"])
        os.chmod(ctx.w, 0o777)
        open(ctx.log, "wb").close()
        os.chmod(ctx.log, 0o666)
        s = build_script(ctx, batches[i])
        for root, dirs, _ in os.walk(os.path.join(ctx.w, "deep")):
            os.chmod(root, 0o755)
        sp, op = os.path.join(ctx.w, "script"), os.path.join(ctx.w, "out")
        open(sp, "w").write(s.text())
        if os.path.exists(op):
            os.unlink(op)
        inner = ["env", "LD_PRELOAD=" + cf.preload(b)] + (["%s=%s" % kv for kv in cf.SAN_ENV.items()] if b["variant"].startswith("asan") else []) + [
                 "XDRV_INI=" + os.path.join(ctx.etc, "snoopy.ini"), os.path.join(c.BUILD, "xdrv"), sp, op]
        cmd = (["unshare", "-u", "-p", "-f", "--kill-child", "--mount-proc"] if can_ns else []) + inner
        try:
            subprocess.run(cmd, env={"PATH": "/usr/sbin:/usr/bin:/sbin:/bin"}, capture_output=True, timeout=1500, cwd=ctx.w, stdin=subprocess.DEVNULL)
        except subprocess.TimeoutExpired:
            pass
        res = {}
        item = None
        for line in (open(op, errors="replace") if os.path.exists(op) else []):
            try:
                e = json.loads(line)
            except ValueError:
                continue
            if e["ev"] == "mark" and str(e.get("label", "")).startswith("item:"):
                item = e["label"][5:]
            elif e["ev"] == "child" and e.get("signal"):
                res.setdefault("crashes", {}).setdefault(item, e["signal"])
            if e["ev"] == "procstate":
                res.setdefault(e["label"], {})["state"] = e
            elif e["ev"] == "at" and e.get("label"):
                res.setdefault(e["label"], {})["record"] = bytes.fromhex(e["sinks"].get("file") or "")
                dl = e["sinks"].get("devlog") or []
                res[e["label"]]["devlog"] = b"".join(bytes.fromhex(x) for x in (dl if isinstance(dl, list) else [dl]))
            elif e["ev"] == "error":
                res.setdefault("errors", []).append(e["what"])
        return res

    with ThreadPoolExecutor(max_workers=len(batches)) as ex:
        outs = list(ex.map(one, range(len(batches))))
    obs = {"crashes": {}}
    for o in outs:
        obs.update({k: v for k, v in o.items() if k not in ("errors", "crashes")})
        obs["crashes"].update(o.get("crashes", {}))
    return obs, can_ns


def expected_fields(st, topname, forknames, tz, version, ns, longpath=None):
    """oracle values computed from the harness's independent reading of the process state"""
    H = lambda k: bytes.fromhex(st[k])
    envs = [bytes.fromhex(x) for x in st["environ"]]
    envd = {}
    for e in envs:
        if b"=" in e:
            k, v = e.split(b"=", 1)
            envd.setdefault(k, v)
    exp = {}
    exp["uid"], exp["euid"], exp["gid"], exp["egid"] = [b"%d" % st[k] for k in ("ruid", "euid", "rgid", "egid")]
    for key, uid in (("username", st["ruid"]), ("eusername", st["euid"])):
        n = name_of(uid)
        exp[key] = n.encode() if n else re.compile(rb".*(%d|undefined).*" % uid)
    for key, gid in (("group", st["rgid"]), ("egroup", st["egid"])):
        n = gname_of(gid)
        exp[key] = n.encode() if n else re.compile(rb".*(undefined|%d).*" % gid)
    exp["pid"], exp["ppid"], exp["sid"], exp["tid_kernel"] = [b"%d" % st[k] for k in ("pid", "ppid", "sid", "ktid")]
    exp["tid"] = st["pthread_self"].encode()
    cwd = H("cwd")
    fail = re.escape(b"[ERROR: Data source 'cwd' failed")
    if st.get("getcwd_errno", 0) == 0 and not cwd.endswith(b" (deleted)"):
        exp["cwd"] = cwd
    elif cwd.endswith(b" (deleted)"):        # the directory is gone: an honest failure, or the name it had
        exp["cwd"] = re.compile(rb"^(" + fail + rb".*|" + re.escape(cwd) + rb"|" + re.escape(cwd[:-10]) + rb")$", re.S)
    else:                                     # longer than the kernel can report: an honest failure, or the path the harness walked
        exp["cwd"] = re.compile(rb"^(" + fail + rb".*)$", re.S)          # run() adds the path the harness walked
    exp["hostname"] = H("hostname")
    if st["isatty"]:
        exp["tty"] = H("stdin")
        exp["tty_uid"] = b"%d" % st["ttyuid"]
        n = name_of(st["ttyuid"])
        exp["tty_username"] = n.encode() if n else None
    else:
        exp["tty"] = exp["tty_uid"] = exp["tty_username"] = b"(none)"
    if st["login_rc"] == 0:
        exp["login"] = H("login")
    else:
        v = envd.get(b"SUDO_USER") or envd.get(b"LOGNAME") or b"(unknown)"
        exp["login"] = v if len(v) <= 254 else {v, v[:254]}          # 254 = the data source's documented maximum
    exp["env"] = envd.get(b"XVAR", b"(undefined)")
    exp["envmissing"] = b"(undefined)"
    cg = H("cgroup").split(b"\n")
    line0 = [l for l in cg if l.startswith(b"0:")]
    exp["cgroup0"] = line0[0] if line0 else b"(none)"
    exp["cgroupnone"] = b"(none)"
    chain = [topname] + forknames
    exp["rpname"] = chain[0][:15] if ns else None
    now = st["now"]
    exp["timestamp"] = {b"%d" % (now + d) for d in (-1, 0, 1, 2, 3, 4, 5)}
    exp["ms"] = re.compile(rb"^\d{3}$")
    exp["us"] = re.compile(rb"^\d{6}$")
    os.environ["TZ"] = envd.get(b"TZ", b"UTC").decode()
    time.tzset()
    def fmts(f):
        return {time.strftime(f, time.localtime(now + d)).encode() for d in (-1, 0, 1, 2, 3, 4, 5)}
    exp["datetime"] = fmts("%Y-%m-%dT%H:%M:%S%z")
    exp["dt_date"] = fmts("%Y-%m-%d %H")
    exp["dt_epoch"] = {b"%d" % (now + d) for d in (-1, 0, 1, 2, 3, 4, 5)}
    exp["dt_zone"] = fmts("%z")
    exp["version"] = version
    exp["env_all"] = b",".join(envs)
    return exp


def compare(record, exp, dsmax=2047):
    probs = []
    if not record.endswith(b"\n"):
        return [("record", "no complete record was logged: %r" % record[:80])]
    parts = record[:-1].split(SEP)
    got = {}
    for p_ in parts:
        k, _, v = p_.partition(b"=")
        got[k.decode("latin-1")] = v
    for k, want in exp.items():
        if want is None:
            continue
        g = got.get(k)
        if g is None:
            probs.append((k, "field missing from the record"))
            continue
        if k == "env_all":
            ok = g == want if len(want) <= dsmax - 4 else (g.endswith(b"...") and want.startswith(g[:-3]) and len(g) <= dsmax)
        elif isinstance(want, set):
            ok = g in want
        elif hasattr(want, "match"):
            ok = bool(want.match(g))
        else:
            ok = g == want
        if not ok:
            shown = want if not isinstance(want, set) else sorted(want)[0]
            probs.append((k, "%%{%s} printed %r, the process state says %r" % (k, g[:100], (shown.pattern if hasattr(shown, "pattern") else shown)[:100])))
    return probs


def cgroup_family(rep, b):
    """%{cgroup:ARG} for every controller name and hierarchy number of this host, and for names that extend or shorten them by one byte
    (registry call in a probe linked against the production archive; oracle: the harness's own parsing of /proc/self/cgroup)"""
    probe = os.path.join(b["root"], "probe-plain")
    r = subprocess.run(["gcc", "-g", "-O0", "-w", "-I" + b["src"] + "/src", "-I" + b["src"], "-o", probe, os.path.join(c.VERIF, "harness/dsprobe.c"),
                        b["src"] + "/src/.libs/libsnoopy-no-entrypoint.a", "-lpthread", "-ldl"], capture_output=True, text=True)
    if r.returncode:
        raise c.MachineryError("cannot build the cgroup probe: " + r.stderr[-800:])
    content = open("/proc/self/cgroup", "rb").read()
    lines = [l for l in content.split(b"\n") if l]
    names, nums = [], []
    for l in lines:
        parts = l.split(b":", 2)
        if len(parts) == 3:
            nums.append(parts[0])
            names += [x for x in parts[1].split(b",") if x]
    args = []
    for n in names:
        args += [n, n + b"x", n + b"_v2", n[:-1]] if len(n) > 1 else [n, n + b"x"]
    args += nums + [b"99999", b"nosuchcontroller"]
    args = [a for a in dict.fromkeys(args) if a and b" " not in a and len(a) < 60]
    ini = os.path.join(b["root"], "probe.ini")
    open(ini, "w").write("[snoopy]\n")
    p_ = subprocess.run([probe, ini], input="".join("dsv cgroup 4096 %s\n" % a.decode("latin-1") for a in args), capture_output=True, text=True, timeout=60, env={"PATH": "/usr/bin:/bin"})
    got, cur = {}, None
    for line in p_.stdout.split("\n"):
        if line.startswith("BEGIN "):
            cur = line.split()[-1].encode("latin-1")
        elif line.startswith("VAL ") and cur is not None:
            got[cur] = bytes.fromhex(line[4:].strip())
    def want(arg):
        for l in lines:
            parts = l.split(b":", 2)
            if len(parts) == 3 and ((arg.isdigit() and parts[0] == arg) or (not arg.isdigit() and arg in parts[1].split(b","))):
                return l
        return b"(none)"
    for a in args:
        if a in got and got[a] != want(a):
            rep.violation("cgroup:%s" % ("number" if a.isdigit() else "exact-name" if a in names else "near-name"),
                          "%%{cgroup:%s} printed %r, /proc/self/cgroup says %r" % (a.decode("latin-1"), got[a][:100], want(a)[:100]), dict(arg=a.decode("latin-1"), cgroup_file=content.decode("latin-1")))
    return len(args)


def secure_exec_family(rep, b):
    probe = os.path.join(b["root"], "probe-sgid")
    r = subprocess.run(["gcc", "-g", "-O0", "-w", "-I" + b["src"] + "/src", "-I" + b["src"], "-o", probe, os.path.join(c.VERIF, "harness/dsprobe.c"),
                        b["src"] + "/src/.libs/libsnoopy-no-entrypoint.a", "-lpthread", "-ldl"], capture_output=True, text=True)
    if r.returncode:
        raise c.MachineryError("cannot build the set-gid probe: " + r.stderr[-800:])
    os.chown(probe, 0, 4343)
    os.chmod(probe, 0o2755)
    os.chmod(b["root"], 0o755)
    ini = os.path.join(b["root"], "probe.ini")
    open(ini, "w").write("[snoopy]\n")
    asks = [("env", "envname"), ("gid", "x"), ("egid", "x"), ("uid", "x"), ("euid", "x"), ("login", "x"), ("env_all", "x"), ("username", "x"), ("egroup", "x")]
    inp = "".join("dsv %s 4096 %s\n" % a for a in asks)
    p_ = subprocess.run([probe, ini], input=inp, capture_output=True, text=True, timeout=60,
                        env={"PATH": "/usr/bin:/bin", "LOGNAME": "secure-login", "TZ": "UTC", "OTHER": "o"})
    vals, cur = {}, None
    for line in p_.stdout.split("\n"):
        if line.startswith("BEGIN "):
            cur = line.split()[2]
        elif line.startswith("VAL ") and cur:
            vals[cur] = bytes.fromhex(line[4:].strip())
    if vals.get("egid") != b"4343" or vals.get("gid") != b"0":
        rep.assumptions.append("the set-gid probe did not get egid 4343 (nosuid mount?): secure-execution family skipped (%r)" % {k: v[:20] for k, v in vals.items()})
        return 0
    eg = gname_of(4343)
    want = {"env": b"value of the probe variable", "login": b"secure-login", "uid": b"0", "euid": b"0", "username": (name_of(0) or "").encode()}
    if eg:
        want["egroup"] = eg.encode()
    for k, w in want.items():
        if vals.get(k) != w:
            rep.violation("%s:secure-execution" % k, "in a process started from a set-group-ID binary (secure-execution mode) %%{%s} printed %r, the process state says %r" % (
                k, (vals.get(k) or b"")[:80], w), dict(state="started set-gid 4343", values={a: repr(v[:60]) for a, v in vals.items()}))
    ea = vals.get("env_all", b"")
    for piece in (b"PROBEVAR=value of the probe variable", b"LOGNAME=secure-login", b"OTHER=o"):
        if piece not in ea:
            rep.violation("env_all:secure-execution", "in secure-execution mode %%{env_all} lacks %r: %r" % (piece, ea[:120]), dict(state="started set-gid 4343"))
    return len(asks)


def run(tier, seed, replay=None):
    rep = c.Reporter("C12", tier, seed, "model_checking")
    rnd = random.Random(seed)
    b = c.build("prod", tag="C12", cwd_etc=True)
    version = re.search(r'#define PACKAGE_VERSION "([^"]*)"', open(os.path.join(b["src"], "config.h")).read()).group(1).encode()
    g = c.run_tlc("ProcStateMC.tla", "ProcStateGen.cfg", heap="16g")
    rep.tlc(g)
    rep.cov["vacuity_guards"] = {"states with six pairwise different ids are reachable": c.run_tlc("ProcStateMC.tla", "ProcStateReach.cfg", expect_violation=True).violated}
    hs = [json.loads(x) for x in g.printed]
    sim = c.run_tlc("ProcStateMC.tla", "ProcStateSim.cfg", simulate=(40 if tier == "quick" else 400), depth=7, seed=seed, workers=8)
    hs += [json.loads(x) for x in sim.printed]
    if tier == "quick" and len(hs) > 2500:
        def prio(h):
            acts = [x["a"] for x in h["steps"]]
            return (any(x["a"] == "ids" and len({x["r"], x["e"], x["s"]}) == 3 for x in h["steps"]), acts.count("call") >= 2, "fork" in acts)
        def special(h):
            return any((x["a"] == "host") or (x["a"] == "cwd" and x["to"] in ("deleted", "toolong")) or (x["a"] == "env" and x["to"] in ("sudo254", "logname300")) for x in h["steps"])
        spec_ = [h for h in hs if special(h)]
        hs = [h for h in hs if not special(h)]
        spec_.sort(key=lambda h: len(h["steps"]))
        short = [h for h in spec_ if len(h["steps"]) <= 2]
        longer = [h for h in spec_ if len(h["steps"]) > 2]
        rnd.shuffle(longer)
        spec_ = short + longer[:500]
        first = [h for h in hs if prio(h)[1] or prio(h)[2]]
        second = [h for h in hs if prio(h)[0] and h not in first]
        rest = [h for h in hs if h not in first and h not in second]
        rnd.shuffle(first); rnd.shuffle(second); rnd.shuffle(rest)
        hs = spec_ + first[:800] + second[:800] + rest[:600]
    reports = hs[0]["reports"]
    # ancestor chains far deeper than the specification's bound (40 and 100 forks below the root process): derived cases, same contract
    for depth_ in (40, 100):
        hs.append(dict(steps=[{"a": "fork", "name": ["plain", "paren", "space"][k % 3]} for k in range(depth_)] + [{"a": "call"}], reports=reports))
    cases = []
    for i, h in enumerate(hs):
        top = [b"top-plain", b"t(1) op)", b"top sp", b" both ends ", b"\ttab:colon"][i % 5]
        cases.append(("p%d" % i, h["steps"], top, TZS[i % len(TZS)]))
    c.log("[C12] replaying %d process-state behaviours" % len(cases))
    obs, ns = run_cases(b, cases, b["root"] + "/run")
    if not ns:
        rep.assumptions.append("pid namespaces unavailable: %{rpname} is not compared")
    def judge(cases, obs, passname):
        total, nontriv = 0, 0
        for label, steps, top, tz in cases:
            ncall = sum(1 for s in steps if s["a"] == "call")
            forks = []
            k = 0
            cur_cwd = "work"
            for s in steps:
                if s["a"] == "cwd":
                    cur_cwd = s["to"]
                if s["a"] == "fork":
                    forks.append(FORKNAME[s["name"]])
                elif s["a"] == "call":
                    k += 1
                    lab = "%s#%d" % (label, k)
                    o = obs.get(lab)
                    total += 1
                    if not o or "state" not in o or "record" not in o:
                        rep.assumptions.append("behaviour %s produced no observation (setup failed?)" % lab)
                        continue
                    st = o["state"]
                    if len({st["ruid"], st["euid"], st["suid"]}) == 3 or forks:
                        nontriv += 1
                    exp = expected_fields(st, top, list(forks), tz, version, ns, cur_cwd == "toolong")
                    if cur_cwd == "toolong":
                        fail = re.escape(b"[ERROR: Data source 'cwd' failed") + rb"(?!.*x value = with equals)"     # ... and its text is its own, not the previous tag's
                        exp["cwd"] = re.compile(rb"^(" + fail + rb".*|/.*/long-" + label.encode() + (b"/" + LONGCOMP) * LONGCOUNT + rb")$", re.S)
                    if cur_cwd == "deleted":
                        # the call ran on the built-in defaults; the default message format carries %{cwd}, read from the syslog datagram
                        m = DEFAULT_CWD_RE.search(o.get("devlog") or b"")
                        if not m:
                            rep.assumptions.append("behaviour %s (deleted working directory) logged nothing to the default sink: %s" % (lab, [x["a"] + ":" + str(x.get("to", x.get("e", ""))) for x in steps]))
                            continue
                        found = [("cwd", "%%{cwd} printed %r, the process state says %r" % (m.group(1)[:100], exp["cwd"].pattern[:100]))] if not exp["cwd"].match(m.group(1)) else []
                    else:
                        found = compare(o["record"], exp)
                    for field, what in found:
                        dsname = {"envmissing": "env", "cgroup0": "cgroup", "cgroupnone": "cgroup", "ms": "timestamp_ms", "us": "timestamp_us", "dt_date": "datetime",
                                  "dt_epoch": "datetime", "dt_zone": "datetime", "version": "snoopy_version"}.get(field, field)
                        cls = "ids-distinct" if len({st["ruid"], st["euid"], st["suid"]}) == 3 else "after-fork" if forks else "plain"
                        if field == "cwd" and cur_cwd in ("deleted", "toolong"):
                            cls = "cwd-" + cur_cwd
                        if field == "hostname":
                            cls = "len%d" % len(bytes.fromhex(st["hostname"]))
                        if field == "login" and st["login_rc"] != 0:
                            cls = "from-environment"
                        rep.violation("%s:%s" % (dsname, cls), "after %s: %s (contract: %%{%s} reports %s)" % (
                            [x["a"] + (":" + str(x.get("to", x.get("name", ""))) if x["a"] in ("stdin", "cwd", "env", "fork", "host") else "") for x in steps][:6], what, dsname, reports.get(dsname, "?")),
                            dict(steps=steps, field=field, independent_reading={k2: v for k2, v in st.items() if k2 not in ("environ", "cgroup")}))
            if label in obs["crashes"]:
                rep.violation("crash:%s:signal%d" % (passname, obs["crashes"][label]), "after %s the process died with signal %d inside the call (%s build)" % (
                    [x["a"] + ":" + str(x.get("to", "")) for x in steps][:6], obs["crashes"][label], passname), dict(steps=steps))
        return total, nontriv

    total, nontriv = judge(cases, obs, "production")
    # the same contract on an ASan/UBSan build for the boundary states (long login names, 64-byte host name, unreportable working directories)
    ba = c.build("asan", tag="C12a", cwd_etc=True)
    sub = [x for x in cases if any((s["a"] == "host") or (s["a"] == "cwd" and s["to"] in ("deleted", "toolong")) or (s["a"] == "env" and s["to"] in ("sudo254", "logname300", "huge", "noeq", "empty")) for s in x[1])]
    sub = sorted(sub, key=lambda x: len(x[1]))[: (160 if tier == "quick" else 1500)]
    sub = [("a" + lab, st, top, tz) for (lab, st, top, tz) in sub]
    obs2, _ = run_cases(ba, sub, ba["root"] + "/run")
    t2, n2 = judge(sub, obs2, "asan")
    total += t2
    nontriv += n2
    # ... and every name keeps its meaning in a build without thread safety (a sample of the behaviours on the --disable-thread-safety build)
    bn = c.build("nots", tag="C12n", cwd_etc=True)
    subn = [("n" + lab, st, top, tz) for (lab, st, top, tz) in cases[:: max(1, len(cases) // (150 if tier == "quick" else 1500))]]
    obs3, _ = run_cases(bn, subn, bn["root"] + "/run")
    t3, n3 = judge(subn, obs3, "non-thread-safe")
    total += t3
    nontriv += n3
    # secure-execution mode: the same data sources in a process that was started from a set-group-ID binary (AT_SECURE: libc's secure_getenv()
    # hides the environment there, getenv() does not). The registry is called directly in a set-gid copy of the probe linked against the production archive.
    nsec = secure_exec_family(rep, b) + cgroup_family(rep, b)
    total += nsec
    nontriv += nsec
    rep.cov["traces_validated_against_impl"] = total
    rep.cov["evaluations"] = total * len(FIELDS)
    rep.cov["distinct_nontrivial"] = nontriv
    rep.cov["rule"] = ("behaviour = sequence of <= 3 (exhaustive) or <= 6 (simulated) state-changing system calls ending in exec calls, generated by TLC from "
                       "ProcState.tla over uids {0,4242,65534} and gids {0,4343,65534}; every call logs %d data-source fields which are compared with the harness's "
                       "independent reading of the process state; non-trivial = three pairwise different uids, or a call made after a fork" % len(FIELDS))
    for h in hs[:2]:
        rep.sample(dict(steps=h["steps"]))
    rep.assumptions += ["domain, ipaddr, systemd_unit_name and snoopy_configure_command are not compared (they depend on resolver / utmp / systemd state the sandbox lacks)",
                        "names for ids without passwd/group entries are only required to mention the number (or '(undefined)' for groups)",
                        "time-valued sources must format a second within [t-1, t+5] of the harness's own clock reading, in the TZ of the process"]
    return rep.finish()
