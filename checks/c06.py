"""C06: cmdline / filename describe the current call only.
(a) call histories of spec/SnoopyCall.tla replayed in one process (checks/c11.py machinery);
(b) boundary argument vectors from spec/Cmdline.tla (the offset arithmetic of cmdline.c): every vector of <= 3 arguments
    whose lengths sit around the data-source limit, realised with position-dependent bytes, must log the exact prefix."""
import json, os, subprocess
from concurrent.futures import ThreadPoolExecutor
from vlib import common as c, drv
from checks import c11, c05, callflow as cf

ARGA = b"abcdefghijklmnopqrstuvwxyzABCDEFGHIJKLMNOPQRSTUVWXYZ0123456789_-+=.,:;%"


def boundary_family(rep, b, tier):
    rep.tlc(c.run_tlc("CmdlineMC.tla", "CmdlineMC.cfg"))
    rep.cov.setdefault("vacuity_guards", {})["cmdline separator stored without terminator"] = \
        c.run_tlc("CmdlineMC.tla", "CmdlineDefSep.cfg", expect_violation=True).violated
    cases = []
    for cfg in (["CmdlineGen.cfg"] + (["CmdlineGen2k.cfg"] if tier == "thorough" else ["CmdlineGen2k.cfg"])):
        g = c.run_tlc("CmdlineMC.tla", cfg)
        rep.tlc(g)
        for x in g.printed:
            cases.append(json.loads(x))
    workers = c.NCPU
    batches = [cases[i::workers] for i in range(workers)]
    ctxs = [cf.Ctx(b, os.path.join(b["root"], "cmdl", "w%d" % i)) for i in range(workers)]

    def argv_for(h):
        return [c05.pat(ARGA, 3 * k + 1, n) for k, n in enumerate(h["args"])]

    def one(i):
        ctx = ctxs[i]
        s = drv.Script()
        s.add("sinkfile", "file", drv.hx(ctx.log)).path(ctx.helper).envp([b"A=1"]).add("ret", -1, 2).add("snap", 0)
        for k, h in enumerate(batches[i]):
            ini = b'[snoopy]\nmessage_format = "<%{cmdline}>"\noutput = file:' + ctx.log + b"\ndatasource_message_max_length = %d\n" % (h["cap"] - 1)
            s.add("emit", "item:c%d" % k).add("fork").add("ini", drv.hx(ini)).argv(argv_for(h)).call("execve", "c%d" % k).add("endfork")
        sp, op = os.path.join(ctx.w, "script"), os.path.join(ctx.w, "out")
        open(sp, "w").write(s.text())
        if os.path.exists(op):
            os.unlink(op)
        env = dict({"PATH": "/usr/bin:/bin", "LD_PRELOAD": cf.preload(b), "XDRV_INI": os.path.join(ctx.etc, "snoopy.ini")}, **cf.SAN_ENV)
        subprocess.run([os.path.join(c.BUILD, "xdrv"), sp, op], env=env, capture_output=True, timeout=900, cwd=ctx.w, stdin=subprocess.DEVNULL)
        res, cur = {}, None
        for line in open(op, errors="replace") if os.path.exists(op) else []:
            try:
                e = json.loads(line)
            except ValueError:
                continue
            if e["ev"] == "mark" and e["label"].startswith("item:"):
                cur = e["label"][5:]
                res[cur] = {}
            elif cur and e["ev"] == "at" and e.get("label") == cur:
                res[cur]["at"] = e
            elif cur and e["ev"] == "child":
                res[cur]["child"] = e
        return res

    with ThreadPoolExecutor(max_workers=workers) as ex:
        outs = list(ex.map(one, range(workers)))
    n = 0
    for i in range(workers):
        for k, h in enumerate(batches[i]):
            n += 1
            o = outs[i].get("c%d" % k, {})
            exp = b"<" + b" ".join(argv_for(h))[:h["cap"] - 1] + b">\n"
            if len(exp) - 3 != h["expect"]:
                raise c.MachineryError("concretiser disagrees with the specification about the expected length")
            if "at" not in o:
                what = "no record: process died with signal %s" % o.get("child", {}).get("signal")
                got = None
            else:
                got = bytes.fromhex(o["at"]["sinks"].get("file") or "")
                what = None if got == exp else "logged %d bytes %r..., expected %d bytes ...%r" % (len(got), got[-24:], len(exp), exp[-24:])
            if what:
                edge = [("=" if x == h["cap"] - 1 else "<" if x < h["cap"] - 1 else ">") for x in [sum(h["args"][:j + 1]) + j for j in range(len(h["args"]))]]
                rep.violation("cmdline-boundary:%s" % "".join(edge), "argument lengths %s with a result buffer of %d bytes: %s" % (h["args"], h["cap"], what),
                              dict(arg_lengths=h["args"], cap=h["cap"], expected_length=h["expect"]))
    return n


def run(tier, seed, replay=None):
    def extra(rep, b):
        return boundary_family(rep, b, tier)
    return c11.run_hist_prop("C06", tier, seed, extra=extra)
