from checks import c11
def run(tier, seed, replay=None):
    return c11.run_hist_prop("C06", tier, seed)
