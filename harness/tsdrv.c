/*
 * tsdrv - schedule replay driver for the thread repository (C09, C10).
 * Linked STATICALLY against the archives of a scratch build of the working tree
 * (src/.libs/libsnoopy-no-entrypoint.a + the execve wrapper), so it can read the repository's internal state,
 * and provides its own pthread_mutex_lock/unlock: every operation on the repository mutex is a scheduling point
 * at which the thread parks until the controller lets it continue. Exactly one thread runs at any time, so a
 * schedule (sequence of "thread t takes its next step") determines the execution: the behaviours TLC generates
 * from spec/Tsrm.tla are executed step by step and the projected state (thread ids in list order, element
 * counter, mutex holder) is compared with the specification's after every step.
 *
 *   tsdrv measure <ini> <log>                   one solo call; prints the section kinds as a JSON array
 *   tsdrv replay  <ini> <log> <schedules> <out> one fresh process per schedule line; one JSON result line each
 * schedule line:  <nthreads> <ncalls> <step> ...   step = p:t:a:list:count:owner   (a in e,l,u,f ; list = tids joined by '.')
 */
#define _GNU_SOURCE
#include <errno.h>
#include <fcntl.h>
#include <poll.h>
#include <pthread.h>
#include <semaphore.h>
#include <signal.h>
#include <stdarg.h>
#include <sys/stat.h>
#include <stdio.h>
#include <stdlib.h>
#include <string.h>
#include <sys/wait.h>
#include <sys/syscall.h>
#include <sys/prctl.h>
#include <time.h>
#include <unistd.h>

/* internals of the library under test, declared by the working tree's own headers (-I<tree>/src): a layout change
   in the sources is followed automatically (hidden visibility does not matter inside one link) */
#include "util/list-snoopy.h"
#include "tsrm.h"
typedef snoopy_tsrm_threadData_t threadData_t;
extern list_t snoopy_tsrm_threadRepo_data;
extern pthread_mutex_t snoopy_tsrm_threadRepo_mutex;
extern void snoopy_configuration_preinit_enableAltConfigFileParsing(char *path);
#include <dlfcn.h>
static int (*real_lock)(pthread_mutex_t *), (*real_unlock)(pthread_mutex_t *);
static ssize_t (*real_write)(int, const void *, size_t);
static int (*real_close)(int);
static int resolving;
__attribute__((constructor)) static void resolve(void)
{
    if (real_lock || resolving) return;
    resolving = 1;
    real_lock = dlsym(RTLD_NEXT, "pthread_mutex_lock"); real_unlock = dlsym(RTLD_NEXT, "pthread_mutex_unlock");
    real_write = dlsym(RTLD_NEXT, "write"); real_close = dlsym(RTLD_NEXT, "close");
    resolving = 0;
}
static int __pthread_mutex_lock(pthread_mutex_t *m) { if (!real_lock) { resolve(); if (!real_lock) return 0; } return real_lock(m); }
static int __pthread_mutex_unlock(pthread_mutex_t *m) { if (!real_unlock) { resolve(); if (!real_unlock) return 0; } return real_unlock(m); }

#define MAXT 8
enum { ST_NEW, ST_IDLE, ST_WANT, ST_HOLD, ST_DONE };
static const char *STN[] = {"new", "idle", "want", "hold", "done"};
static int mode_measure, free_run;
static __thread int me;                 /* worker index 1..N, 0 = not a worker */
static __thread const char *kind_hint;  /* set by the --wrap shims */
static __thread int dtor_locks;
static sem_t go[MAXT + 1], parked;
static volatile int state[MAXT + 1], holder;
static pthread_t tids[MAXT + 1];
static int ncalls, nthreads;
static volatile int fork_request[MAXT + 1];
static char measured[4096];
static int child_status[MAXT + 1];       /* result of the child forked by thread t: 0 none, 1 completed, 2 hung in futex, 3 died, 4 hung elsewhere */
static char child_note[MAXT + 1][200];
static int call_ret[MAXT + 1][16];

static volatile int release_all;       /* set when a schedule turns out not to be executable: everybody runs freely from then on */
static void park(int st) { state[me] = st; if (release_all) return; sem_post(&parked); sem_wait(&go[me]); }

static int probe_k, probe_acq; static sem_t probe_hit, probe_go; static volatile int fork_returned;
int pthread_mutex_lock(pthread_mutex_t *m)
{
    if (m == &snoopy_tsrm_threadRepo_mutex && me) {
        if (mode_measure) {
            const char *k = kind_hint ? kind_hint : "lookup";
            if (kind_hint && !strcmp(kind_hint, "dtor")) k = dtor_locks++ == 0 ? "dtorfind" : "dtorremove";
            snprintf(measured + strlen(measured), sizeof measured - strlen(measured), "%s\"%s\"", measured[0] ? "," : "", k);
        } else if (probe_k) {
            int r0 = __pthread_mutex_lock(m);
            holder = me;
            /* fork probe: thread 1 stops right AFTER its K-th acquisition (lock held, section body not yet run) until the main thread lets it go */
            if (me == 1 && ++probe_acq == probe_k) { sem_post(&probe_hit); sem_wait(&probe_go); }
            return r0;
        } else if (!free_run) {
            park(ST_WANT);
        }
        int r = __pthread_mutex_lock(m);
        holder = me;
        return r;
    }
    return __pthread_mutex_lock(m);
}
int pthread_mutex_unlock(pthread_mutex_t *m)
{
    if (m == &snoopy_tsrm_threadRepo_mutex && me) {
        if (!mode_measure && !free_run && !probe_k) park(ST_HOLD);
        holder = 0;
    }
    return __pthread_mutex_unlock(m);
}
/* a write(2) issued by the library inside a call (file / tty outputs) is a scheduling point too: no lock is held,
   but another thread may fork while this one sits between its write and its close */
static __thread int in_call;
ssize_t write(int fd, const void *buf, size_t n)
{
    if (!real_write) { resolve(); }
    if (me && in_call && fd > 2 && !free_run && !probe_k) {
        if (mode_measure) { snprintf(measured + strlen(measured), sizeof measured - strlen(measured), "%s\"io\"", measured[0] ? "," : ""); return real_write(fd, buf, n); }
        park(ST_WANT);
        ssize_t r = real_write(fd, buf, n);
        park(ST_HOLD);
        return r;
    }
    return real_write(fd, buf, n);
}
/* and an open(2) issued by the library itself (file / tty outputs): process-wide settings a call changes around it (umask, cwd ...) are
   visible to -- and can be clobbered by -- the other threads exactly here */
static int (*real_open)(const char *, int, ...);
int open(const char *path, int flags, ...)
{
    mode_t mode = 0;
    if (flags & (O_CREAT | O_TMPFILE)) { va_list ap; va_start(ap, flags); mode = (mode_t) va_arg(ap, int); va_end(ap); }
    if (!real_open) real_open = dlsym(RTLD_NEXT, "open");
    if (me && in_call && !free_run && !probe_k) {
        if (mode_measure) { snprintf(measured + strlen(measured), sizeof measured - strlen(measured), "%s\"io\"", measured[0] ? "," : ""); return real_open(path, flags, mode); }
        park(ST_WANT);
        int r = real_open(path, flags, mode);
        park(ST_HOLD);
        return r;
    }
    return real_open(path, flags, mode);
}
/* so is a close(2) issued by the library itself: a descriptor number released here may be handed to another thread's open() at once,
   so a stale or doubled close shows as another thread's lost record or unread configuration */
int close(int fd)
{
    if (!real_close) { resolve(); }
    if (me && in_call && fd > 2 && !free_run && !probe_k) {
        if (mode_measure) { snprintf(measured + strlen(measured), sizeof measured - strlen(measured), "%s\"io\"", measured[0] ? "," : ""); return real_close(fd); }
        park(ST_WANT);
        int r = real_close(fd);
        park(ST_HOLD);
        return r;
    }
    return real_close ? real_close(fd) : (int) syscall(SYS_close, fd);
}
/* --wrap shims label the critical sections in measure mode */
extern void __real_snoopy_tsrm_ctor(void); extern void __real_snoopy_tsrm_dtor(void); extern int __real_snoopy_tsrm_get_threadCount(void);
void __wrap_snoopy_tsrm_ctor(void) { kind_hint = "ctor"; __real_snoopy_tsrm_ctor(); kind_hint = NULL; }
void __wrap_snoopy_tsrm_dtor(void) { kind_hint = "dtor"; dtor_locks = 0; __real_snoopy_tsrm_dtor(); kind_hint = NULL; }
int __wrap_snoopy_tsrm_get_threadCount(void) { kind_hint = "count"; int r = __real_snoopy_tsrm_get_threadCount(); kind_hint = NULL; return r; }

static int do_call(int t, int k)
{
    char path[64], a0[32], a1[32]; snprintf(path, sizeof path, "/nonexistent/T%dC%d", t, k);
    snprintf(a0, sizeof a0, "prog-T%d", t); snprintf(a1, sizeof a1, "call-%d", k);
    char *argv[] = { a0, a1, NULL }; char *envp[] = { "E=1", NULL };
    errno = 0;
    in_call = 1;
    int r = (k % 2) ? execve(path, argv, envp) : execv(path, argv);
    int e = errno;
    in_call = 0;
    return r == -1 ? e : -r - 1000;
}

static int fork_variant;
static void do_fork(int t)
{
    int pfd[2]; if (pipe(pfd)) {}
    pid_t p = fork();
    fork_returned = 1;
    if (p == 0) {
        free_run = 1; probe_k = 0; close(pfd[0]);
        setpgid(0, 0);                     /* own process group: the parent kills child AND grandchild, whatever state they are in */
        alarm(20);
        char b[32]; int n, e = 0;
        /* a grandchild: the child forks again and the grandchild execs too. Variant 0: the child execs first; variant 1 (odd schedules): the child
           forks again BEFORE it has made any exec call of its own */
        if (fork_variant == 0) { e = do_call(t, 99); n = snprintf(b, sizeof b, "ok %d", e); if (write(pfd[1], b, n) < 0) {} }
        pid_t g = fork();
        if (g == 0) { prctl(PR_SET_PDEATHSIG, SIGKILL); int e2 = do_call(t, 98); _exit(e2 == ENOENT ? 0 : 3); }
        int st = 0; waitpid(g, &st, 0);
        if (fork_variant == 1) { e = do_call(t, 99); n = snprintf(b, sizeof b, "ok %d", e); if (write(pfd[1], b, n) < 0) {} }
        if (write(pfd[1], WIFEXITED(st) && WEXITSTATUS(st) == 0 ? " gok" : " gbad", 5) < 0) {}
        _exit(0);
    }
    close(pfd[1]);
    struct pollfd pf = { pfd[0], POLLIN, 0 };
    char buf[64] = ""; int got = 0; long waited = 0;
    int in_futex = 0;
    while (waited < 8000) {
        int pr = poll(&pf, 1, 200); waited += 200;
        if (pr > 0) { ssize_t r = read(pfd[0], buf + got, sizeof buf - 1 - got); if (r <= 0) break; got += r; buf[got] = 0; in_futex = 0; if (strstr(buf, " g")) break; }
        else {
            /* a single-threaded child that sits in futex() for a whole second is waiting for a lock nobody in it can release: no need to wait 8 s */
            char sp0[64], sc0[64] = ""; snprintf(sp0, sizeof sp0, "/proc/%d/syscall", (int) p);
            int f0 = open(sp0, O_RDONLY); if (f0 >= 0) { ssize_t r0 = read(f0, sc0, sizeof sc0 - 1); if (r0 > 0) sc0[r0] = 0; close(f0); }
            if (!strncmp(sc0, "61 ", 3)) {        /* the child waits for the grandchild: look at that one */
                char cp0[96], kids[64] = ""; snprintf(cp0, sizeof cp0, "/proc/%d/task/%d/children", (int) p, (int) p);
                int fk = open(cp0, O_RDONLY); if (fk >= 0) { ssize_t rk = read(fk, kids, sizeof kids - 1); if (rk > 0) kids[rk] = 0; close(fk); }
                int g0 = atoi(kids);
                if (g0 > 0) { snprintf(sp0, sizeof sp0, "/proc/%d/syscall", g0); sc0[0] = 0; f0 = open(sp0, O_RDONLY); if (f0 >= 0) { ssize_t r0 = read(f0, sc0, sizeof sc0 - 1); if (r0 > 0) sc0[r0] = 0; close(f0); } }
            }
            in_futex = !strncmp(sc0, "202 ", 4) ? in_futex + 1 : 0;
            if (in_futex >= 5) break;
        }
    }
    if (strstr(buf, "ok") && strstr(buf, " gok")) { child_status[t] = 1; snprintf(child_note[t], sizeof child_note[t], "%s", buf); }
    else {
        /* decide by state, not by time alone: where is the child blocked? */
        char sp[64], sc[256] = ""; snprintf(sp, sizeof sp, "/proc/%d/syscall", (int) p);
        int f = open(sp, O_RDONLY); if (f >= 0) { ssize_t r = read(f, sc, sizeof sc - 1); if (r > 0) sc[r] = 0; close(f); }
        int st; pid_t w = waitpid(p, &st, WNOHANG);
        if (w == p) { child_status[t] = 3; snprintf(child_note[t], sizeof child_note[t], "child ended early, status %d, said '%s'", st, buf); }
        else if (!strncmp(sc, "202 ", 4)) { child_status[t] = 2; snprintf(child_note[t], sizeof child_note[t], "child blocked in futex after saying '%s'", buf); }
        else { child_status[t] = 4; snprintf(child_note[t], sizeof child_note[t], "child not finished, syscall '%.40s', said '%s'", sc, buf); }
    }
    kill(-p, SIGKILL); kill(p, SIGKILL); waitpid(p, NULL, 0); close(pfd[0]);
}

static void *probe_caller(void *arg) { (void) arg; me = 1; call_ret[1][1] = do_call(1, 1); return NULL; }
static void *probe_forker(void *arg) { (void) arg; me = 2; do_fork(2); return NULL; }
static void *worker(void *arg)
{
    me = (int) (long) arg;
    for (int k = 1; k <= ncalls; k++) {
        park(ST_IDLE);
        while (fork_request[me]) { fork_request[me] = 0; do_fork(me); park(ST_IDLE); }
        call_ret[me][k] = do_call(me, k);
    }
    park(ST_IDLE);
    while (fork_request[me]) { fork_request[me] = 0; do_fork(me); park(ST_IDLE); }
    state[me] = ST_DONE; sem_post(&parked);
    return NULL;
}

static int tindex(pthread_t id) { for (int i = 1; i <= nthreads; i++) if (pthread_equal(tids[i], id)) return i; return -1; }
static void project(char *out, size_t n)
{
    size_t k = 0; int cnt = 0; out[0] = 0;
    for (listNode_t *p = snoopy_tsrm_threadRepo_data.first; p && cnt < 64; p = p->next, cnt++) {
        threadData_t *d = p->value; k += (size_t) snprintf(out + k, n - k, "%s%d", cnt ? "." : "", d ? tindex(d->threadId) : -2);
    }
    snprintf(out + k, n - k, ":%d:%d", snoopy_tsrm_threadRepo_data.count, holder);
}

static int run_schedule(char *line, FILE *out, const char *logpath)
{
    char *save; char *tok = strtok_r(line, " \n", &save); if (!tok) return 0;
    nthreads = atoi(tok); ncalls = atoi(strtok_r(NULL, " \n", &save));
    if (truncate(logpath, 0)) {}
    sem_init(&parked, 0, 0);
    for (int i = 1; i <= nthreads; i++) { sem_init(&go[i], 0, 0); state[i] = ST_NEW; }
    for (int i = 1; i <= nthreads; i++) { pthread_create(&tids[i], NULL, worker, (void *) (long) i); sem_wait(&parked); }
    int stepno = 0, drift = 0; char first_drift[700] = "";
    for (tok = strtok_r(NULL, " \n", &save); tok; tok = strtok_r(NULL, " \n", &save)) {
        int p, t; char a; char expl[128] = ""; int ecount = 0, eowner = 0;
        if (sscanf(tok, "%d:%d:%c:%127[^:]:%d:%d", &p, &t, &a, expl, &ecount, &eowner) < 3) continue;
        stepno++;
        if (p != 0) continue;                         /* steps of a forked child happen in that child, unscheduled */
        int want = a == 'e' ? ST_IDLE : a == 'l' ? ST_WANT : a == 'u' ? ST_HOLD : ST_IDLE;
        if (state[t] != want) {
            if (!drift) snprintf(first_drift, sizeof first_drift, "step %d (%c of thread %d): thread is parked at '%s', the specification expects '%s'", stepno, a, t, STN[state[t]], STN[want]);
            drift++;
            if (state[t] == ST_DONE) continue;
            if ((a == 'l' || a == 'u') && state[t] == ST_IDLE) continue;     /* e.g. fork handlers absent: nothing to lock */
        }
        if (a == 'f') fork_request[t] = 1;
        sem_post(&go[t]);
        /* a fork step includes waiting for the child (up to 8 s when it hangs): give it longer than any other step */
        struct timespec ts; clock_gettime(CLOCK_REALTIME, &ts); ts.tv_sec += (a == 'f' ? 12 : 4);
        if (sem_timedwait(&parked, &ts) != 0) {
            /* thread t did not reach a scheduling point. Either the code deadlocks, or it blocks on something another PARKED
               thread holds (then the schedule is simply not executable under a cooperative scheduler). Decide by state:
               let everybody run freely; only if the process still does not finish is it a deadlock. */
            release_all = 1;
            for (int i = 1; i <= nthreads; i++) for (int q = 0; q < 64; q++) sem_post(&go[i]);
            int finished = 0;
            for (int w = 0; w < 100 && !finished; w++) { usleep(100000); finished = 1; for (int i = 1; i <= nthreads; i++) if (state[i] != ST_DONE) finished = 0; }
            fprintf(out, finished ? "{\"unschedulable\":%d,\"thread\":%d,\"children\":[" : "{\"hang\":%d,\"thread\":%d,\"children\":[", stepno, t);
            { int first = 1; for (int i = 1; i <= nthreads; i++) if (child_status[i]) { fprintf(out, "%s{\"t\":%d,\"status\":%d,\"note\":\"%s\"}", first ? "" : ",", i, child_status[i], child_note[i]); first = 0; } }
            fprintf(out, "]}\n"); fflush(out); _exit(0);
        }
        char got[256], exp[256]; project(got, sizeof got);
        snprintf(exp, sizeof exp, "%s:%d:%d", strcmp(expl, "-") ? expl : "", ecount, eowner);
        if (strcmp(got, exp)) {
            if (!drift) snprintf(first_drift, sizeof first_drift, "after step %d (%c of thread %d): repository is %s, the specification says %s", stepno, a, t, got, exp);
            drift++;
        }
    }
    /* let everything finish (a schedule from the specification leaves nobody inside a call) */
    for (int round = 0; round < 2000; round++) {
        int busy = 0;
        for (int i = 1; i <= nthreads; i++) if (state[i] != ST_DONE) { busy = 1; sem_post(&go[i]); struct timespec ts; clock_gettime(CLOCK_REALTIME, &ts); ts.tv_sec += 12; if (sem_timedwait(&parked, &ts)) { fprintf(out, "{\"hang\":-1,\"thread\":%d}\n", i); fflush(out); _exit(0); } }
        if (!busy) break;
    }
    char fin[256]; project(fin, sizeof fin);
    { mode_t um = umask(0); umask(um); fprintf(out, "{\"umask\":%u,", (unsigned) um); }      /* process-wide state after all calls returned (022 at start) */
    fprintf(out, "\"steps\":%d,\"drift\":%d,\"first_drift\":\"%s\",\"final\":\"%s\",\"tids\":[", stepno, drift, first_drift, fin);
    for (int i = 1; i <= nthreads; i++) fprintf(out, "%s\"%lu\"", i > 1 ? "," : "", (unsigned long) tids[i]);
    fprintf(out, "],\"children\":[");
    int first = 1; for (int i = 1; i <= nthreads; i++) if (child_status[i]) { fprintf(out, "%s{\"t\":%d,\"status\":%d,\"note\":\"%s\"}", first ? "" : ",", i, child_status[i], child_note[i]); first = 0; }
    fprintf(out, "],\"rets\":[");
    for (int i = 1; i <= nthreads; i++) for (int k = 1; k <= ncalls; k++) fprintf(out, "%s%d", (i > 1 || k > 1) ? "," : "", call_ret[i][k]);
    fprintf(out, "],\"log\":\"");
    FILE *lf = fopen(logpath, "r"); int ch;
    if (lf) { while ((ch = fgetc(lf)) != EOF) { if (ch == '\n') fputs("\\n", out); else if (ch == '"' || ch == '\\') { fputc('\\', out); fputc(ch, out); } else if (ch >= 32 && ch < 127) fputc(ch, out); else fprintf(out, "\\u%04x", ch & 0xff); } fclose(lf); }
    fprintf(out, "\"}\n"); fflush(out);
    return 0;
}

int main(int argc, char **argv)
{
    if (argc < 4) { fprintf(stderr, "usage: tsdrv measure|replay ini log [schedules out]\n"); return 2; }
    snoopy_configuration_preinit_enableAltConfigFileParsing(argv[2]);
    umask(022);
    if (!strcmp(argv[1], "measure")) {
        mode_measure = 1; me = 1; tids[1] = pthread_self(); nthreads = 1;
        do_call(1, 1);
        printf("[%s]\n", measured);
        return 0;
    }
    if (!strcmp(argv[1], "forkprobe")) {
        /* tsdrv forkprobe ini log K warm variant: thread 1 makes a call and is stopped right after its K-th acquisition of the repository mutex;
           thread 2 (which has never called the library) then forks, the child (and a grandchild) exec. The specification (Tsrm!ForkStart/ForkLock,
           AtFork = "locked") lets the fork proceed only once the mutex is free; whatever the code does, the child's exec calls must complete. */
        int K = atoi(argv[4]), warm = argc > 5 ? atoi(argv[5]) : 0; fork_variant = argc > 6 ? atoi(argv[6]) : 0;
        if (warm) { me = 0; char *a0[] = { "warm", NULL }; execv("/nonexistent/warm", a0); }
        sem_init(&probe_hit, 0, 0); sem_init(&probe_go, 0, 0); sem_init(&parked, 0, 0);
        nthreads = 2; ncalls = 1; probe_k = K;
        pthread_t a, f;
        pthread_create(&a, NULL, probe_caller, NULL);
        struct timespec ts; clock_gettime(CLOCK_REALTIME, &ts); ts.tv_sec += 10;
        if (sem_timedwait(&probe_hit, &ts) != 0) { printf("{\"k\":%d,\"reached\":0}\n", K); fflush(stdout); _exit(0); }
        pthread_create(&f, NULL, probe_forker, NULL);
        int early = 0; for (int i = 0; i < 40 && !early; i++) { usleep(10000); early = fork_returned; }      /* 400 ms: did fork() return while the mutex was held? */
        sem_post(&probe_go);
        pthread_join(f, NULL); pthread_join(a, NULL);
        printf("{\"k\":%d,\"reached\":1,\"warm\":%d,\"variant\":%d,\"fork_returned_while_held\":%d,\"child\":%d,\"note\":\"%s\",\"caller_ret\":%d}\n",
               K, warm, fork_variant, early, child_status[2], child_note[2], call_ret[1][1]);
        fflush(stdout); _exit(0);
    }
    FILE *in = fopen(argv[4], "r"), *out = fopen(argv[5], "a");
    if (!in || !out) { perror("open"); return 2; }
    char *line = NULL; size_t cap = 0; int idx = 0;
    while (getline(&line, &cap, in) > 0) {
        idx++;
        fflush(out);
        pid_t p = fork();                              /* pristine library state for every schedule */
        if (p == 0) {
            char lp[600]; snprintf(lp, sizeof lp, "%s", argv[3]);
            fprintf(out, "{\"schedule\":%d}\n", idx); fflush(out);
            fork_variant = idx & 1;
            run_schedule(line, out, lp); fflush(out); _exit(0);
        }
        int st; waitpid(p, &st, 0);
        if (!WIFEXITED(st) || WEXITSTATUS(st)) { fprintf(out, "{\"crashed\":%d,\"signal\":%d}\n", idx, WIFSIGNALED(st) ? WTERMSIG(st) : 0); fflush(out); }
    }
    return 0;
}
