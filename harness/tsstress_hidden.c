/* compiled WITHOUT -fsanitize=thread and linked with -Wl,--wrap=pthread_mutex_lock,--wrap=pthread_mutex_unlock: operations on the
   repository mutex go straight to libc and stay invisible to the race detector (see tsstress.c); every other mutex is TSan's business */
#define _GNU_SOURCE
#include <dlfcn.h>
#include <pthread.h>
extern pthread_mutex_t snoopy_tsrm_threadRepo_mutex;
extern int __real_pthread_mutex_lock(pthread_mutex_t *);
extern int __real_pthread_mutex_unlock(pthread_mutex_t *);
static int (*rl)(pthread_mutex_t *), (*ru)(pthread_mutex_t *);
static void res(void) { if (!rl) { rl = dlsym(RTLD_NEXT, "pthread_mutex_lock"); ru = dlsym(RTLD_NEXT, "pthread_mutex_unlock"); } }
int __wrap_pthread_mutex_lock(pthread_mutex_t *m) { if (m == &snoopy_tsrm_threadRepo_mutex) { res(); return rl(m); } return __real_pthread_mutex_lock(m); }
int __wrap_pthread_mutex_unlock(pthread_mutex_t *m) { if (m == &snoopy_tsrm_threadRepo_mutex) { res(); return ru(m); } return __real_pthread_mutex_unlock(m); }
