/*
 * librec.so - the recorder. Loaded as LD_PRELOAD=libsnoopy.so:librec.so it provides the *next* definition of
 * execv/execve, i.e. exactly what dlsym(RTLD_NEXT, ...) inside the production wrapper resolves to: the
 * "real exec" linearisation point of the specification (action RealExec of spec/SnoopyCall.tla).
 * It records what it is called with, lets the driver take a snapshot at that very instant (callback),
 * and then either returns a programmed (ret, errno) or passes through to libc (real image replacement).
 * It also redirects connect() to /dev/log to a scratch datagram socket (env REC_DEVLOG).
 * No snoopy source is modified for any of this.
 */
#define _GNU_SOURCE
#include <dlfcn.h>
#include <errno.h>
#include <stdlib.h>
#include <string.h>
#include <sys/socket.h>
#include <sys/un.h>
#include <unistd.h>
#include "librec.h"

extern char **environ;

__attribute__((visibility("default"))) struct rec_ctl rec_ctl;

static int record(int kind, const char *path, char *const argv[], char *const envp[])
{
    struct rec_ctl *c = &rec_ctl;
    int idx = c->ncalls;
    if (idx < REC_MAX_CALLS) {
        c->calls[idx].kind = kind;
        c->calls[idx].path = path;
        c->calls[idx].argv = argv;
        c->calls[idx].envp = envp;
        c->calls[idx].environ_at = environ;
        c->calls[idx].tid = (long) pthread_self();
    }
    __sync_fetch_and_add(&c->ncalls, 1);
    c->sl_open_at_exec = c->sl_open;
    if (c->on_call) {
        c->on_call(idx);
    }
    return idx;
}

__attribute__((visibility("default"))) int execve(const char *path, char *const argv[], char *const envp[])
{
    record(REC_EXECVE, path, argv, envp);
    if (rec_ctl.mode == REC_MODE_REAL) {
        int (*real)(const char *, char *const *, char *const *) = dlsym(RTLD_NEXT, "execve");
        return real(path, argv, envp);
    }
    errno = rec_ctl.err;
    return rec_ctl.ret;
}

__attribute__((visibility("default"))) int execv(const char *path, char *const argv[])
{
    record(REC_EXECV, path, argv, NULL);
    if (rec_ctl.mode == REC_MODE_REAL) {
        int (*real)(const char *, char *const *) = dlsym(RTLD_NEXT, "execv");
        return real(path, argv);
    }
    errno = rec_ctl.err;
    return rec_ctl.ret;
}

/* /dev/log does not exist in the sandbox (and must not be shared between parallel checks) */
__attribute__((visibility("default"))) int connect(int fd, const struct sockaddr *addr, socklen_t len)
{
    static int (*real)(int, const struct sockaddr *, socklen_t);
    if (!real) {
        real = dlsym(RTLD_NEXT, "connect");
    }
    const char *redir = getenv("REC_DEVLOG");
    if (redir && addr && addr->sa_family == AF_UNIX) {
        const struct sockaddr_un *un = (const struct sockaddr_un *) addr;
        size_t plen = len - sizeof(un->sun_family);
        if (plen >= 8 && strncmp(un->sun_path, "/dev/log", 8) == 0 && (plen == 8 || un->sun_path[8] == '\0')) {
            struct sockaddr_un r;
            memset(&r, 0, sizeof r);
            r.sun_family = AF_UNIX;
            strncpy(r.sun_path, redir, sizeof(r.sun_path) - 1);
            rec_ctl.devlog_connects++;
            return real(fd, (struct sockaddr *) &r, (socklen_t) (sizeof(r.sun_family) + strlen(r.sun_path)));
        }
    }
    return real(fd, addr, len);
}

/* The optional `syslog` output talks to glibc's syslog(3), whose path to /dev/log cannot be redirected from outside.
 * With REC_SYSLOG set these three definitions stand in for glibc's: they keep the state glibc would keep (ident pointer,
 * options, facility, open or not) so that the driver can tell what the caller's later syslog(3) calls would find. */
#include <stdarg.h>
#include <stdio.h>
#include <syslog.h>
__attribute__((visibility("default"))) void openlog(const char *ident, int option, int facility)
{
    if (!getenv("REC_SYSLOG")) { void (*real)(const char *, int, int) = dlsym(RTLD_NEXT, "openlog"); real(ident, option, facility); return; }
    rec_ctl.sl_open = 1; rec_ctl.sl_opens++; rec_ctl.sl_ident = ident; rec_ctl.sl_opt = option; rec_ctl.sl_fac = facility;
    snprintf(rec_ctl.sl_ident_copy, sizeof rec_ctl.sl_ident_copy, "%s", ident ? ident : "");
}
__attribute__((visibility("default"))) void closelog(void)
{
    if (!getenv("REC_SYSLOG")) { void (*real)(void) = dlsym(RTLD_NEXT, "closelog"); real(); return; }
    rec_ctl.sl_open = 0; rec_ctl.sl_closes++; rec_ctl.sl_ident = NULL; rec_ctl.sl_opt = 0;
}
__attribute__((visibility("default"))) void syslog(int pri, const char *fmt, ...)
{
    va_list ap; va_start(ap, fmt);
    if (!getenv("REC_SYSLOG")) { void (*real)(int, const char *, va_list) = dlsym(RTLD_NEXT, "vsyslog"); real(pri, fmt, ap); va_end(ap); return; }
    rec_ctl.sl_msgs++; rec_ctl.sl_pri = pri;
    vsnprintf(rec_ctl.sl_last, sizeof rec_ctl.sl_last, fmt, ap);
    va_end(ap);
}

#ifndef REC_NO_ALLOC
/* ------------------------------------------------------------------------------------------------
 * Allocation accounting. glibc supports replacing the malloc family: libc's own internal calls
 * (strdup, fopen, getline, ...) come through these too. While rec_ctl.track is set, every block handed
 * out is remembered in a pointer table until it is freed; live_count/live_bytes are what is still
 * held. The driver switches tracking on only around the call under test.
 */
#include <malloc.h>
#include <stdint.h>
extern void *__libc_malloc(size_t);
extern void __libc_free(void *);
extern void *__libc_calloc(size_t, size_t);
extern void *__libc_realloc(void *, size_t);
extern void *__libc_memalign(size_t, size_t);
#define TABSZ (1 << 17)
static void *volatile tab[TABSZ];
static volatile int tablock;
static void lock(void) { while (__sync_lock_test_and_set(&tablock, 1)) { } }
static void unlock(void) { __sync_lock_release(&tablock); }
static void track_add(void *p)
{
    if (!p) return;
    lock();
    size_t h = ((uintptr_t) p >> 4) & (TABSZ - 1);
    for (size_t i = 0; i < TABSZ; i++, h = (h + 1) & (TABSZ - 1)) {
        if (tab[h] == NULL || tab[h] == (void *) 1) { tab[h] = p; rec_ctl.live_count++; rec_ctl.live_bytes += (long) malloc_usable_size(p); break; }
    }
    unlock();
}
static void track_del(void *p)
{
    lock();
    size_t h = ((uintptr_t) p >> 4) & (TABSZ - 1);
    for (size_t i = 0; i < TABSZ; i++, h = (h + 1) & (TABSZ - 1)) {
        if (tab[h] == NULL) break;
        if (tab[h] == p) { tab[h] = (void *) 1; rec_ctl.live_count--; rec_ctl.live_bytes -= (long) malloc_usable_size(p); break; }
    }
    unlock();
}
__attribute__((visibility("default"))) void *malloc(size_t n) { void *p = __libc_malloc(n); if (rec_ctl.track) track_add(p); return p; }
__attribute__((visibility("default"))) void *calloc(size_t a, size_t b) { void *p = __libc_calloc(a, b); if (rec_ctl.track) track_add(p); return p; }
__attribute__((visibility("default"))) void free(void *p) { if (p && rec_ctl.live_count > 0) track_del(p); __libc_free(p); }
__attribute__((visibility("default"))) void *realloc(void *o, size_t n)
{
    if (o && rec_ctl.live_count > 0) track_del(o);
    void *p = __libc_realloc(o, n);
    if (rec_ctl.track) track_add(p ? p : (n ? o : NULL));
    return p;
}
__attribute__((visibility("default"))) void *memalign(size_t a, size_t n) { void *p = __libc_memalign(a, n); if (rec_ctl.track) track_add(p); return p; }
__attribute__((visibility("default"))) void *aligned_alloc(size_t a, size_t n) { return memalign(a, n); }
__attribute__((visibility("default"))) int posix_memalign(void **r, size_t a, size_t n) { void *p = memalign(a, n); if (!p) return 12; *r = p; return 0; }
#endif /* REC_NO_ALLOC: the sanitizer builds bring their own allocator */
