/*
 * tsstress - randomised multi-threaded stress of the wrapped exec calls under ThreadSanitizer (C09: state shared OUTSIDE the
 * repository lock, which the schedule replay cannot reach). Linked statically against a clang -fsanitize=thread build of the
 * working tree. The repository mutex is taken about 17 times per call and would create incidental happens-before edges that hide
 * races in the code running between critical sections, so pthread_mutex_lock/unlock for THAT mutex are routed through
 * tsstress_hidden.c, an object compiled WITHOUT instrumentation: mutual exclusion still holds, TSan just does not see it.
 * Reports whose frames lie in tsrm.c / util/list.c are therefore ignored by the harness (those accesses are what the systematic
 * schedule exploration covers).
 *   tsstress <ini> <threads> <calls> [<padlen>]      padlen > 0: every call carries a third argument of padlen bytes (one letter per thread)
 */
#define _GNU_SOURCE
#include <errno.h>
#include <pthread.h>
#include <stdio.h>
#include <stdlib.h>
#include <string.h>
#include <unistd.h>
extern void snoopy_configuration_preinit_enableAltConfigFileParsing(char *path);
static int ncalls, padlen;
static void *worker(void *arg)
{
    long t = (long) arg;
    for (int k = 0; k < ncalls; k++) {
        char path[64], a0[32], a1[32]; snprintf(path, sizeof path, "/nonexistent/T%ldC%d", t, k);
        snprintf(a0, sizeof a0, "prog-T%ld", t); snprintf(a1, sizeof a1, "call-%d", k);
        char *pad = NULL;
        if (padlen > 0) { pad = malloc((size_t) padlen + 1); memset(pad, 'a' + (int) (t % 26), (size_t) padlen); pad[padlen] = 0; }
        char *argv[] = { a0, a1, pad, NULL }; char *envp[] = { "E=1", NULL };
        if (k % 2) execve(path, argv, envp); else execv(path, argv);
        free(pad);
    }
    return NULL;
}
int main(int argc, char **argv)
{
    if (argc < 4) return 2;
    snoopy_configuration_preinit_enableAltConfigFileParsing(argv[1]);
    int n = atoi(argv[2]); ncalls = atoi(argv[3]); padlen = argc > 4 ? atoi(argv[4]) : 0;
    pthread_t th[64];
    for (long i = 0; i < n && i < 64; i++) pthread_create(&th[i], NULL, worker, (void *) (i + 1));
    for (int i = 0; i < n && i < 64; i++) pthread_join(th[i], NULL);
    return 0;
}
