/*
 * fltprobe - calls a filter through the registry of the working tree's archives (static link), after switching the
 * real/effective uid. Used by C14 for lists longer than one snoopy.ini line can carry (the compile-time default chain has no such limit).
 *   stdin lines: <ruid> <euid> <filter name> <argument>      stdout: PASS | DROP | ERR
 */
#define _GNU_SOURCE
#include <stdio.h>
#include <stdlib.h>
#include <string.h>
#include <unistd.h>
#include <sys/wait.h>
#include "snoopy.h"
#include "filterregistry.h"
int main(void) {
    static char line[1 << 16];
    setvbuf(stdout, NULL, _IONBF, 0);
    while (fgets(line, sizeof line, stdin)) {
        unsigned long r, e; char name[64]; int off = 0;
        line[strcspn(line, "\n")] = 0;
        if (sscanf(line, "%lu %lu %63s %n", &r, &e, name, &off) < 3) continue;
        pid_t p = fork();
        if (p == 0) {
            if (setresuid((uid_t) r, (uid_t) e, (uid_t) r)) { printf("ERR\n"); _exit(0); }
            int v = snoopy_filterregistry_callByName(name, line + off);
            printf(v == SNOOPY_FILTER_PASS ? "PASS\n" : v == SNOOPY_FILTER_DROP ? "DROP\n" : "ERR\n");
            _exit(0);
        }
        int st; waitpid(p, &st, 0);
        if (!WIFEXITED(st)) printf("ERR\n");
    }
    return 0;
}
