#ifndef LIBREC_H
#define LIBREC_H
#include <pthread.h>
#define REC_MAX_CALLS 16
#define REC_EXECV  1
#define REC_EXECVE 2
#define REC_MODE_RETURN 0
#define REC_MODE_REAL   1
struct rec_call {
    int kind;
    const char *path;
    char *const *argv;
    char *const *envp;
    char **environ_at;
    long tid;
};
struct rec_ctl {
    int mode;
    int ret, err;
    volatile int ncalls;
    int devlog_connects;
    struct rec_call calls[REC_MAX_CALLS];
    void (*on_call)(int idx);
    /* allocation accounting (C16): while `track` is set every malloc-family result is remembered until it is freed */
    volatile int track;
    volatile long live_count, live_bytes;
    /* model of the caller's syslog(3) state (env REC_SYSLOG): openlog/syslog/closelog as the library under test calls them */
    volatile int sl_open, sl_open_at_exec, sl_opens, sl_closes, sl_msgs, sl_pri, sl_opt, sl_fac;
    const char *sl_ident;
    char sl_ident_copy[300];
    char sl_last[600];
};
#endif
