#!/bin/bash
# bigcgroup.sh <workdir> <hierarchies> <depth> -- <command...>
# Runs <command> in a process whose /proc/<pid>/cgroup is large: it is placed, in each of <hierarchies> private named
# (controller-less) cgroup v1 hierarchies, into a group nested <depth> levels deep with 200-byte names.
# Must run inside a private mount namespace (unshare -m). The groups are removed and the hierarchies unmounted afterwards
# (an empty named hierarchy disappears with its last mount). Exit status: the command's, or 96 when the set-up is impossible here.
set -u
W=$1; NH=$2; DEPTH=$3; shift 4
SEG=$(head -c 200 /dev/zero | tr '\0' 'd')
RUN="r$$"
mounted=""
cleanup() {
    for i in $mounted; do
        for level in $(seq "$DEPTH" -1 1); do
            p="$W/cg$i/$RUN"; for l in $(seq 1 "$level"); do p="$p/$SEG"; done
            rmdir "$p" 2>/dev/null
        done
        rmdir "$W/cg$i/$RUN" 2>/dev/null
        umount "$W/cg$i" 2>/dev/null
    done
    # removed groups are released asynchronously; an empty hierarchy only disappears when it is unmounted while empty
    for n in 1 2 3 4 5 6 7 8; do
        left=0
        for i in $mounted; do
            grep -q ":name=verifcg_$i:" /proc/self/cgroup || continue
            left=1
            mount -t cgroup -o none,name=verifcg_$i none "$W/cg$i" 2>/dev/null && umount "$W/cg$i" 2>/dev/null
        done
        [ $left = 0 ] && break
        sleep 0.3
    done
    for i in $mounted; do rmdir "$W/cg$i" 2>/dev/null; done
}
trap cleanup EXIT
procs=""
for i in $(seq 1 "$NH"); do
    mkdir -p "$W/cg$i"
    mount -t cgroup -o none,name=verifcg_$i none "$W/cg$i" 2>/dev/null || exit 96
    mounted="$mounted $i"
    p="$W/cg$i/$RUN"; mkdir "$p" || exit 96
    for level in $(seq 1 "$DEPTH"); do p="$p/$SEG"; mkdir "$p" || exit 96; done
    procs="$procs $p/cgroup.procs"
done
( for f in $procs; do echo $BASHPID > "$f" || exit 96; done; exec "$@" )
rc=$?
# the command has exited: its groups are empty again; give the kernel a moment to release them
for n in 1 2 3 4 5; do
    busy=0
    for i in $mounted; do p="$W/cg$i/$RUN"; for l in $(seq 1 "$DEPTH"); do p="$p/$SEG"; done; [ -s "$p/cgroup.procs" ] && busy=1; done
    [ $busy = 0 ] && break; sleep 0.2
done
exit $rc
