/*
 * xdrv - replay driver. Executes a script of abstract-behaviour steps (produced by the concretisers in
 * /verif/checks from TLC-generated behaviours) against the PRODUCTION libsnoopy.so, which is preloaded
 * together with librec.so:   LD_PRELOAD=<tree>/src/.libs/libsnoopy.so:/verif/build/librec.so xdrv script out
 * and writes one JSON line per observation to `out`.  See the command table in run_line().
 * Byte strings in scripts are hex; "-" is a NULL pointer, "." the empty string.
 */
#define _GNU_SOURCE
#include <ctype.h>
#include <dirent.h>
#include <dlfcn.h>
#include <errno.h>
#include <fcntl.h>
#include <malloc.h>
#include <pty.h>
#include <signal.h>
#include <stdarg.h>
#include <stdint.h>
#include <stdio.h>
#include <stdlib.h>
#include <string.h>
#include <sys/ioctl.h>
#include <sys/mman.h>
#include <sys/prctl.h>
#include <sys/socket.h>
#include <sys/syscall.h>
#include <sys/stat.h>
#include <sys/utsname.h>
#include <sys/resource.h>
#include <locale.h>
#include <sys/file.h>
#include <alloca.h>
#include <pthread.h>
#include <linux/sched.h>
#include <stdint.h>
#include <sys/time.h>
#include <sys/un.h>
#include <sys/wait.h>
#include <termios.h>
#include <time.h>
#include <unistd.h>
#include <grp.h>
#include "librec.h"

extern char **environ;
static struct rec_ctl *rc;
static int outfd = -1;
static const char *ini_path;
static char helper_path[512];
static int pty_m = -1, pty_s = -1;

/* ---------------------------------------------------------------- output */
static char obuf[1 << 22];
static size_t olen;
static void oflush(void) { if (olen) { if (write(outfd, obuf, olen) < 0) {} olen = 0; } }
static void oput(const char *s, size_t n) {
    if (olen + n > sizeof obuf) oflush();
    if (n > sizeof obuf) { if (write(outfd, s, n) < 0) {} return; }
    memcpy(obuf + olen, s, n); olen += n;
}
static void opf(const char *fmt, ...) {
    char b[4096]; va_list ap; va_start(ap, fmt); int n = vsnprintf(b, sizeof b, fmt, ap); va_end(ap);
    if (n > 0) oput(b, (size_t) n < sizeof b ? (size_t) n : sizeof b - 1);
}
static void ohex(const unsigned char *p, size_t n) {
    static const char H[] = "0123456789abcdef";
    char b[8192]; size_t k = 0;
    oput("\"", 1);
    for (size_t i = 0; i < n; i++) { b[k++] = H[p[i] >> 4]; b[k++] = H[p[i] & 15]; if (k >= sizeof b - 2) { oput(b, k); k = 0; } }
    oput(b, k); oput("\"", 1);
}

/* ---------------------------------------------------------------- helpers */
static unsigned char *unhex(const char *s, size_t *len) {          /* returns malloc'ed NUL-terminated buffer, or NULL for "-" */
    if (strcmp(s, "-") == 0) { *len = 0; return NULL; }
    if (strcmp(s, ".") == 0) { *len = 0; return (unsigned char *) calloc(1, 1); }
    size_t n = strlen(s) / 2; unsigned char *b = malloc(n + 1);
    for (size_t i = 0; i < n; i++) {
        int hi = s[2 * i], lo = s[2 * i + 1];
        hi = hi <= '9' ? hi - '0' : (hi | 32) - 'a' + 10; lo = lo <= '9' ? lo - '0' : (lo | 32) - 'a' + 10;
        b[i] = (unsigned char) (hi * 16 + lo);
    }
    b[n] = 0; *len = n; return b;
}
static uint64_t fnv(const void *p, size_t n, uint64_t h) {
    const unsigned char *c = p; for (size_t i = 0; i < n; i++) { h ^= c[i]; h *= 1099511628211ULL; } return h;
}
static uint64_t vec_sum(char *const *v) {                           /* checksum of a NULL-terminated vector, content only */
    uint64_t h = 1469598103934665603ULL; if (!v) return 7;
    for (size_t i = 0; v[i]; i++) { h = fnv(v[i], strlen(v[i]) + 1, h); }
    return h;
}
static long long now_us(void) { struct timespec t; clock_gettime(CLOCK_MONOTONIC, &t); return t.tv_sec * 1000000LL + t.tv_nsec / 1000; }

/* ---------------------------------------------------------------- sinks */
enum { S_FILE, S_SOCK, S_PIPE, S_PTY, S_FULL, S_FIFO };
struct sink { char name[32]; int type; char path[512]; int fd; off_t off; };
static struct sink *sinks; static int nsinks;      /* in shared memory: a child that drains a file sink advances the parent's offset too */

static char jam_sink[32]; static long jam_delay;
static void drain_one(struct sink *s) {                              /* emits "name":<data> */
    static unsigned char buf[1 << 21];
    opf("\"%s\":", s->name);
    if (s->type == S_FILE) {
        int fd = open(s->path, O_RDONLY);
        if (fd < 0) { opf("null"); return; }
        struct stat st; fstat(fd, &st);
        if (st.st_size < s->off) { opf("{\"shrunk\":%lld}", (long long) st.st_size); s->off = st.st_size; close(fd); return; }
        size_t n = (size_t) (st.st_size - s->off); unsigned char *b = malloc(n + 1);
        ssize_t r = pread(fd, b, n, s->off); if (r < 0) r = 0;
        ohex(b, (size_t) r); s->off += r; free(b); close(fd);
    } else if (s->type == S_FULL) {                                  /* never read: its queue must stay full */
        opf("[]");
    } else if (s->type == S_SOCK) {
        opf("["); int first = 1;
        for (;;) { ssize_t r = recv(s->fd, buf, sizeof buf, MSG_DONTWAIT); if (r < 0) break; if (!first) opf(","); first = 0; ohex(buf, (size_t) r); }
        opf("]");
    } else {                                                          /* pipe or pty master */
        size_t tot = 0; unsigned char *acc = NULL;
        for (;;) { ssize_t r = read(s->fd, buf, sizeof buf); if (r <= 0) break; acc = realloc(acc, tot + r); memcpy(acc + tot, buf, r); tot += r; }
        ohex(acc ? acc : (unsigned char *) "", tot); free(acc);
    }
}
static void drain_all(const char *key) {
    opf("\"%s\":{", key);
    for (int i = 0; i < nsinks; i++) { if (i) opf(","); drain_one(&sinks[i]); }
    opf("}");
}

/* ---------------------------------------------------------------- process snapshot (C16) */
static char *shared_name;
static void on_rename(int sig) { (void) sig; if (shared_name && shared_name[40]) prctl(PR_SET_NAME, shared_name); }
static pid_t jam_helper;
static int count_threads(void) { int n = 0; DIR *d = opendir("/proc/self/task"); struct dirent *e; while (d && (e = readdir(d))) if (isdigit((unsigned char) e->d_name[0])) n++; if (d) closedir(d); return n; }
static void snapshot(const char *key) {
    char fds[8192]; size_t k = 0; fds[0] = 0;
    int nums[1024]; int nn = 0;
    DIR *d = opendir("/proc/self/fd"); int dfd = dirfd(d); struct dirent *e;
    while ((e = readdir(d))) { if (isdigit((unsigned char) e->d_name[0])) { int f = atoi(e->d_name); if (f != dfd && nn < 1024) nums[nn++] = f; } }
    closedir(d);
    for (int i = 0; i < nn; i++) for (int j = i + 1; j < nn; j++) if (nums[j] < nums[i]) { int t = nums[i]; nums[i] = nums[j]; nums[j] = t; }
    for (int i = 0; i < nn; i++) {
        char p[64], t[256]; snprintf(p, sizeof p, "/proc/self/fd/%d", nums[i]);
        ssize_t r = readlink(p, t, sizeof t - 1); if (r < 0) r = 0; t[r] = 0;
        int fl = fcntl(nums[i], F_GETFD);
        k += (size_t) snprintf(fds + k, sizeof fds - k, "%d=%s%s;", nums[i], t, (fl & FD_CLOEXEC) ? "(cx)" : "");
        if (k > sizeof fds - 300) break;
    }
    long heapc = rc->live_count, heapb = rc->live_bytes;      /* library-side allocations still live (librec accounting) */
    char cwd[4096]; if (!getcwd(cwd, sizeof cwd)) strcpy(cwd, "?");
    mode_t um = umask(0); umask(um);
    sigset_t ss; sigprocmask(SIG_SETMASK, NULL, &ss); uint64_t mh = 5;
    for (int s = 1; s < 65; s++) { int m = sigismember(&ss, s) == 1; mh = fnv(&m, sizeof m, mh); }
    uint64_t ah = 3;
    for (int s = 1; s < 65; s++) {
        struct sigaction sa; memset(&sa, 0, sizeof sa);
        if (sigaction(s, NULL, &sa) == 0) {
            void *h = (void *) sa.sa_handler; int fl = sa.sa_flags; ah = fnv(&h, sizeof h, ah); ah = fnv(&fl, sizeof fl, ah);
            for (int q = 1; q < 65; q++) { int m = sigismember(&sa.sa_mask, q) == 1; ah = fnv(&m, sizeof m, ah); }
        }
    }
    opf("\"%s\":{\"fds\":\"%s\",\"heap\":\"%ld/%ld\",\"envp\":\"%p\",\"envsum\":\"%llx\",\"cwd\":", key, fds, heapc, heapb, (void *) environ, (unsigned long long) vec_sum(environ));
    ohex((unsigned char *) cwd, strlen(cwd));
    opf(",\"umask\":%u,\"sigmask\":\"%llx\",\"sigacts\":\"%llx\"", (unsigned) um, (unsigned long long) mh, (unsigned long long) ah);
    /* more per-process settings a library must hand back as it found them */
    struct itimerval it; char timers[160]; size_t tk = 0; timers[0] = 0;
    for (int w = 0; w < 3; w++) { memset(&it, 0, sizeof it); getitimer(w, &it); tk += (size_t) snprintf(timers + tk, sizeof timers - tk, "%d:%d/%d;", w, it.it_value.tv_sec || it.it_value.tv_usec, it.it_interval.tv_sec || it.it_interval.tv_usec); }
    char lims[400]; size_t lk = 0; lims[0] = 0; static const int RL[] = { RLIMIT_NOFILE, RLIMIT_STACK, RLIMIT_CORE, RLIMIT_FSIZE, RLIMIT_AS, RLIMIT_NPROC, RLIMIT_CPU };
    for (size_t w = 0; w < sizeof RL / sizeof RL[0]; w++) { struct rlimit rl; getrlimit(RL[w], &rl); lk += (size_t) snprintf(lims + lk, sizeof lims - lk, "%llu/%llu;", (unsigned long long) rl.rlim_cur, (unsigned long long) rl.rlim_max); }
    char comm[32] = ""; prctl(PR_GET_NAME, comm);
    errno = 0; int prio = getpriority(PRIO_PROCESS, 0);
    int nchild = 0; { char cp[64]; snprintf(cp, sizeof cp, "/proc/self/task/%ld/children", (long) syscall(SYS_gettid)); int f = open(cp, O_RDONLY); char cb[512]; ssize_t r = f >= 0 ? read(f, cb, sizeof cb - 1) : 0; if (f >= 0) close(f); if (r < 0) r = 0; cb[r] = 0; for (char *q = cb; *q; q++) if (*q == ' ') nchild++; if (jam_helper > 0 && nchild > 0) nchild--; }
    const char *loc = setlocale(LC_ALL, NULL);
    struct termios tio; int havet = tcgetattr(0, &tio) == 0; uint64_t th = 0;
    if (havet) { tcflag_t fl[4] = { tio.c_iflag, tio.c_oflag, tio.c_cflag, tio.c_lflag & ~(tcflag_t) (FLUSHO | PENDIN) }; th = fnv(fl, sizeof fl, 9); th = fnv(tio.c_cc, NCCS, th); }
    opf(",\"timers\":\"%s\",\"rlimits\":\"%s\",\"comm\":", timers, lims); ohex((unsigned char *) comm, strlen(comm));
    opf(",\"nice\":%d,\"dumpable\":%d,\"children\":%d,\"locale\":\"%s\",\"termios0\":\"%llx\",\"nthreads\":%d}", prio, prctl(PR_GET_DUMPABLE), nchild, loc ? loc : "?", (unsigned long long) th, count_threads());
}

/* ---------------------------------------------------------------- the call under test */
static struct {
    unsigned char *path; char **argv; char **envp; size_t argc, envc;
    /* shadow copies, never handed to the library */
    unsigned char *s_path; char **s_argv; char **s_envp;
    int ret, err, real;
    int want_snap, quiet;
    char label[64];
    int signals;
} cur;
static volatile int sigcount; static int lastsig;
static void onsig(int s) { sigcount++; lastsig = s; }

/* consecutive entries that share one string (sharedargv) share the copy too */
static char **dupvec(char **v, size_t n) { if (!v) return NULL; char **r = calloc(n + 1, sizeof *r); for (size_t i = 0; i < n; i++) r[i] = !v[i] ? NULL : (i && v[i] == v[i - 1]) ? r[i - 1] : strdup(v[i]); return r; }
static int veceq(char *const *a, char **b) {
    if (!a || !b) return a == (char *const *) b;
    size_t i = 0; for (; a[i] && b[i]; i++) { if (i && a[i] == a[i - 1] && b[i] == b[i - 1]) continue; if (strcmp(a[i], b[i])) return 0; } return a[i] == NULL && b[i] == NULL;
}

static int at_idx;
static void at_exec(int idx) {
    /* called by librec at the real-exec instant */
    struct rec_call *c = &rc->calls[idx < REC_MAX_CALLS ? idx : REC_MAX_CALLS - 1];
    if (cur.quiet) return;                      /* quiet 1: nothing is emitted; quiet 2: only pre/ret, nothing inside the call window */
    int was_tracking = rc->track; rc->track = 0;
    int path_ptr = (const unsigned char *) c->path == cur.path;
    int argv_ptr = (char **) c->argv == cur.argv;
    int envp_ptr = c->kind == REC_EXECVE ? ((char **) c->envp == cur.envp) : 1;
    int content = (c->path && cur.s_path ? strcmp(c->path, (char *) cur.s_path) == 0 : (const unsigned char *) c->path == cur.s_path)
                  && veceq(c->argv, cur.s_argv) && (c->kind == REC_EXECVE ? veceq(c->envp, cur.s_envp) : 1);
    opf("{\"ev\":\"at\",\"label\":\"%s\",\"idx\":%d,\"kind\":%d,\"path_ptr\":%d,\"argv_ptr\":%d,\"envp_ptr\":%d,\"content\":%d,\"environ\":\"%p\",\"envsum\":\"%llx\",\"pid\":%d,",
        cur.label, idx, c->kind, path_ptr, argv_ptr, envp_ptr, content, (void *) c->environ_at, (unsigned long long) vec_sum(environ), (int) getpid());
    if (cur.want_snap) { snapshot("snap"); opf(","); }
    drain_all("sinks");
    opf(",\"signals\":%d}\n", (int) sigcount);
    oflush();
    at_idx = idx;
    rc->track = was_tracking;
}

/* stack contents below the caller are arbitrary: fill them with a non-zero pattern before the call (command dirtystack <bytes>) */
static size_t dirty_bytes = 65536;     /* default: 64 KB below the caller are dirtied before every call (dirtystack <n> changes it, 0 = off) */
static int pre_errno = -1;
static long child_timeout = 30;           /* seconds; command childtimeout <n> */
static void __attribute__((noinline)) dirty_stack(size_t nbytes) {
    volatile unsigned char *p = alloca(nbytes);
    for (size_t i = 0; i < nbytes; i++) p[i] = 0xA5;
    __asm__ volatile("" ::: "memory");
}
static void do_jam(void) {
    struct sink *sk = NULL; for (int i = 0; i < nsinks; i++) if (!strcmp(sinks[i].name, jam_sink)) sk = &sinks[i];
    jam_sink[0] = 0;
    if (!sk) return;
    static char junk[4096]; memset(junk, 'J', sizeof junk); long filled = 0;
    for (;;) { ssize_t w = write(sk->fd, junk, sizeof junk); if (w <= 0) break; filled += w; }
    for (;;) { ssize_t w = write(sk->fd, junk, 1); if (w <= 0) break; filled += w; }
    oflush();
    pid_t h = fork();
    if (h == 0) {
        prctl(PR_SET_PDEATHSIG, SIGKILL);
        struct timespec d = { jam_delay / 1000, (jam_delay % 1000) * 1000000L }; nanosleep(&d, NULL);
        int bf = open(sk->path, O_RDONLY); long left = filled;                 /* blocking reads of exactly the filling */
        while (left > 0) { ssize_t r = read(bf, junk, left > (long) sizeof junk ? sizeof junk : (size_t) left); if (r <= 0) break; left -= r; }
        _exit(0);
    }
    jam_helper = h;
}
static void do_call_here(const char *kind);
static size_t thread_stack = 0;            /* command threadstack <bytes>: calls are made from a fresh thread with that much stack (0 = the main thread) */
static void *call_thread(void *k) { do_call_here((const char *) k); return NULL; }
static void do_call(const char *kind) {
    if (!thread_stack) { do_call_here(kind); return; }
    pthread_attr_t a; pthread_attr_init(&a); pthread_attr_setstacksize(&a, thread_stack);
    pthread_t th; size_t saved = dirty_bytes; if (dirty_bytes > thread_stack / 8) dirty_bytes = thread_stack / 8;
    if (pthread_create(&th, &a, call_thread, (void *) kind)) { opf("{\"ev\":\"error\",\"what\":\"pthread_create: %s\"}\n", strerror(errno)); do_call_here(kind); }
    else pthread_join(th, NULL);
    dirty_bytes = saved; pthread_attr_destroy(&a);
}
static void do_call_here(const char *kind) {
    rc->sl_opens = rc->sl_closes = rc->sl_msgs = 0; rc->sl_open_at_exec = -1; rc->sl_last[0] = 0;
    rc->ncalls = 0; rc->mode = cur.real ? REC_MODE_REAL : REC_MODE_RETURN; rc->ret = cur.ret; rc->err = cur.err; rc->on_call = at_exec;
    free(cur.s_path); cur.s_path = cur.path ? (unsigned char *) strdup((char *) cur.path) : NULL;
    cur.s_argv = dupvec(cur.argv, cur.argc); cur.s_envp = dupvec(cur.envp, cur.envc);
    uint64_t envsum0 = vec_sum(environ); char **env0 = environ;
    if (cur.quiet != 1) {
        opf("{\"ev\":\"pre\",\"label\":\"%s\",", cur.label);
        if (cur.want_snap) { snapshot("snap"); opf(","); }
        drain_all("sinks"); opf("}\n"); oflush();
    }
    if (jam_sink[0]) do_jam();
    sigcount = 0;
    long long t0 = now_us();
    errno = 0;
    int r;
    if (getenv("XDRV_MARK")) { if (write(-1, "XDRV-ENTER", 10) < 0) {} }       /* markers for syscall-level tracers (C03) */
    rc->track = 1;
    if (dirty_bytes) dirty_stack(dirty_bytes);
    /* errno is whatever the caller's earlier work left behind: ERANGE on every other call of a process (or the value set by preerrno <n>) */
    { static unsigned callno; errno = pre_errno >= 0 ? pre_errno : ((callno++ + (unsigned) getpid()) & 1 ? ERANGE : 0); }
    if (strcmp(kind, "execv") == 0) r = execv((char *) cur.path, cur.argv);
    else r = execve((char *) cur.path, cur.argv, cur.envp);
    int e = errno;
    rc->track = 0;
    if (getenv("XDRV_MARK")) { if (write(-1, "XDRV-LEAVE", 10) < 0) {} errno = e; }
    long long t1 = now_us();
    if (cur.quiet != 1) {
        int intact = (cur.path && cur.s_path ? strcmp((char *) cur.path, (char *) cur.s_path) == 0 : cur.path == cur.s_path) && veceq(cur.argv, cur.s_argv) && veceq(cur.envp, cur.s_envp);
        opf("{\"ev\":\"ret\",\"label\":\"%s\",\"kind\":\"%s\",\"n_real\":%d,\"ret\":%d,\"errno\":%d,\"inputs_intact\":%d,\"environ_same\":%d,\"us\":%lld,\"signals\":%d,\"lastsig\":%d,",
            cur.label, kind, (int) rc->ncalls, r, e, intact, (environ == env0 && vec_sum(environ) == envsum0), t1 - t0, (int) sigcount, lastsig);
        if (getenv("REC_SYSLOG")) {
            opf("\"syslog\":{\"open_at_exec\":%d,\"open_after\":%d,\"opens\":%d,\"closes\":%d,\"msgs\":%d,\"pri\":%d,\"opt\":%d,\"fac\":%d,\"ident\":\"", (int) rc->sl_open_at_exec, (int) rc->sl_open, (int) rc->sl_opens, (int) rc->sl_closes, (int) rc->sl_msgs, (int) rc->sl_pri, (int) rc->sl_opt, (int) rc->sl_fac);
            for (const unsigned char *q = (const unsigned char *) rc->sl_ident_copy; *q; q++) opf("%02x", *q);
            opf("\",\"last\":\"");
            for (const unsigned char *q = (const unsigned char *) rc->sl_last; *q; q++) opf("%02x", *q);
            opf("\"},");
        }
        if (cur.want_snap) { snapshot("snap"); opf(","); }
        drain_all("sinks"); opf("}\n"); oflush();
    }
    if (cur.s_argv) { for (size_t i = 0; i < cur.argc; i++) if (i == 0 || cur.s_argv[i] != cur.s_argv[i - 1]) free(cur.s_argv[i]); free(cur.s_argv); cur.s_argv = NULL; }
    if (cur.s_envp) { for (size_t i = 0; i < cur.envc; i++) free(cur.s_envp[i]); free(cur.s_envp); cur.s_envp = NULL; }
}

/* ---------------------------------------------------------------- script */
static char **lines; static size_t nlines;
static char *tok[70000]; static int ntok;
static void split(char *l) { ntok = 0; for (char *p = strtok(l, " \n"); p && ntok < 70000; p = strtok(NULL, " \n")) tok[ntok++] = p; }
static void freevec(char ***v, size_t *n) { if (*v) { for (size_t i = 0; i < *n; i++) if (i == 0 || (*v)[i] != (*v)[i - 1]) free((*v)[i]); free(*v); } *v = NULL; *n = 0; }
static char **private_env; static size_t private_envn;

static void add_sink(const char *name, int type, const char *path, int fd) {
    struct sink *s = &sinks[nsinks++]; memset(s, 0, sizeof *s);
    snprintf(s->name, sizeof s->name, "%s", name); s->type = type; s->fd = fd; if (path) snprintf(s->path, sizeof s->path, "%s", path);
    if (type == S_FILE) { struct stat st; s->off = stat(path, &st) == 0 ? st.st_size : 0; }
}
static int bind_dgram(const char *path) {
    int s = socket(AF_UNIX, SOCK_DGRAM | SOCK_CLOEXEC, 0); struct sockaddr_un a; memset(&a, 0, sizeof a); a.sun_family = AF_UNIX;
    snprintf(a.sun_path, sizeof a.sun_path, "%s", path); unlink(path);
    if (bind(s, (struct sockaddr *) &a, sizeof a) < 0) { opf("{\"ev\":\"error\",\"what\":\"bind %s: %s\"}\n", path, strerror(errno)); }
    int big = 8 << 20; setsockopt(s, SOL_SOCKET, SO_RCVBUF, &big, sizeof big);
    return s;
}

static size_t run_from(size_t pc, int in_child);

static size_t run_line(size_t pc, int in_child, int *stop) {
    char *l = strdup(lines[pc]); split(l);
    if (ntok == 0 || tok[0][0] == '#') { free(l); return pc + 1; }
    const char *c = tok[0]; size_t n;
    if (!strcmp(c, "ini")) {
        unsigned char *b = unhex(tok[1], &n);
        if (!b) unlink(ini_path);
        else { int fd = open(ini_path, O_WRONLY | O_CREAT | O_TRUNC, 0644); if (write(fd, b, n) < 0) {} close(fd); free(b); }
    } else if (!strcmp(c, "inidir")) { unlink(ini_path); mkdir(ini_path, 0755);
    } else if (!strcmp(c, "inirmdir")) { rmdir(ini_path);
    } else if (!strcmp(c, "helperdump")) {
        int f = open(helper_path, O_RDONLY); static unsigned char hb[1 << 22]; ssize_t r = f >= 0 ? read(f, hb, sizeof hb) : 0; if (r < 0) r = 0; if (f >= 0) close(f);
        opf("{\"ev\":\"helper\",\"label\":\"%s\",\"data\":", ntok > 1 ? tok[1] : ""); ohex(hb, (size_t) r); opf("}\n"); oflush();
        if (truncate(helper_path, 0)) {}
    } else if (!strcmp(c, "inimode")) { chmod(ini_path, (mode_t) strtol(tok[1], NULL, 8));
    } else if (!strcmp(c, "sinkfile")) { unsigned char *p = unhex(tok[2], &n); add_sink(tok[1], S_FILE, (char *) p, -1); free(p);
    } else if (!strcmp(c, "sinksock")) { unsigned char *p = unhex(tok[2], &n); add_sink(tok[1], S_SOCK, (char *) p, bind_dgram((char *) p)); free(p);
    } else if (!strcmp(c, "sinkfifo")) {                             /* a named pipe as the target of the file output; we keep it open read-write so that opens never block */
        unsigned char *p = unhex(tok[2], &n); unlink((char *) p);
        if (mkfifo((char *) p, 0666)) opf("{\"ev\":\"error\",\"what\":\"mkfifo: %s\"}\n", strerror(errno));
        int fd = open((char *) p, O_RDWR | O_NONBLOCK | O_CLOEXEC); add_sink(tok[1], S_FIFO, (char *) p, fd); free(p);
    } else if (!strcmp(c, "fifojam")) {                              /* fifojam <sink> <delay_ms>: the NEXT call finds the pipe filled to the brim; a helper takes the filling out again after the delay */
        snprintf(jam_sink, sizeof jam_sink, "%s", tok[1]); jam_delay = atol(tok[2]);
    } else if (!strcmp(c, "fifowait")) { if (jam_helper > 0) { int st; waitpid(jam_helper, &st, 0); jam_helper = 0; }
    } else if (!strcmp(c, "sinkfull")) { unsigned char *p = unhex(tok[2], &n); add_sink(tok[1], S_FULL, (char *) p, bind_dgram((char *) p)); free(p);
    } else if (!strcmp(c, "sinkstall")) {                            /* a stream listener that never accepts, its backlog already full: connect() on a blocking socket would hang */
        unsigned char *p = unhex(tok[1], &n); struct sockaddr_un u; memset(&u, 0, sizeof u); u.sun_family = AF_UNIX; snprintf(u.sun_path, sizeof u.sun_path, "%s", (char *) p);
        unlink((char *) p); int ls = socket(AF_UNIX, SOCK_STREAM | SOCK_CLOEXEC, 0); int filled = 0;
        if (ls < 0 || bind(ls, (struct sockaddr *) &u, sizeof u) || listen(ls, 0)) opf("{\"ev\":\"error\",\"what\":\"sinkstall: %s\"}\n", strerror(errno));
        else for (int i = 0; i < 16; i++) { int cs = socket(AF_UNIX, SOCK_STREAM | SOCK_CLOEXEC | SOCK_NONBLOCK, 0); if (connect(cs, (struct sockaddr *) &u, sizeof u)) { close(cs); break; } filled++; }
        chmod((char *) p, 0666); opf("{\"ev\":\"stalled\",\"pending\":%d}\n", filled); free(p);
    } else if (!strcmp(c, "sinkdevlog")) { unsigned char *p = unhex(tok[2], &n); add_sink(tok[1], S_SOCK, (char *) p, bind_dgram((char *) p)); setenv("REC_DEVLOG", (char *) p, 1); free(p);
    } else if (!strcmp(c, "sinkstd")) {
        int po[2], pe[2]; if (pipe2(po, O_NONBLOCK) || pipe2(pe, O_NONBLOCK)) {}
        if (fcntl(po[0], F_SETPIPE_SZ, 1 << 20) < 0 || fcntl(pe[0], F_SETPIPE_SZ, 1 << 20) < 0) opf("{\"ev\":\"error\",\"what\":\"F_SETPIPE_SZ: %s\"}\n", strerror(errno));
        dup2(po[1], 1); dup2(pe[1], 2); close(po[1]); close(pe[1]);
        int f1 = fcntl(1, F_GETFL); fcntl(1, F_SETFL, f1 & ~O_NONBLOCK);   /* writers block-free? the write ends stay non-blocking via shared file description */
        add_sink("stdout", S_PIPE, NULL, po[0]); add_sink("stderr", S_PIPE, NULL, pe[0]);
        if (ntok > 1 && !strcmp(tok[1], "full")) setvbuf(stdout, NULL, _IOFBF, 1 << 16);
    } else if (!strcmp(c, "sinkpty")) {
        int m, s; struct termios t;
        if (setsid() < 0) opf("{\"ev\":\"error\",\"what\":\"setsid: %s\"}\n", strerror(errno));
        if (openpty(&m, &s, NULL, NULL, NULL) < 0) opf("{\"ev\":\"error\",\"what\":\"openpty: %s\"}\n", strerror(errno));
        tcgetattr(s, &t); cfmakeraw(&t); tcsetattr(s, TCSANOW, &t);
        if (ioctl(s, TIOCSCTTY, 0) < 0) opf("{\"ev\":\"error\",\"what\":\"TIOCSCTTY: %s\"}\n", strerror(errno));
        fcntl(m, F_SETFL, O_NONBLOCK); add_sink("devtty", S_PTY, NULL, m);
        if (ntok > 1 && !strcmp(tok[1], "stdin")) { dup2(s, 0); }
        char *tn = ttyname(s); opf("{\"ev\":\"pty\",\"name\":\"%s\"}\n", tn ? tn : "?");
    } else if (!strcmp(c, "ptypair")) {                              /* a pty that is nobody's controlling terminal: cheap tty for stdin */
        struct termios t; if (openpty(&pty_m, &pty_s, NULL, NULL, NULL) < 0) opf("{\"ev\":\"error\",\"what\":\"openpty: %s\"}\n", strerror(errno));
        tcgetattr(pty_s, &t); cfmakeraw(&t); tcsetattr(pty_s, TCSANOW, &t);
        char *tn = ttyname(pty_s); opf("{\"ev\":\"pty\",\"name\":\"%s\"}\n", tn ? tn : "?");
    } else if (!strcmp(c, "stdin")) {
        if (!strcmp(tok[1], "pty")) { int f = open(ttyname(pty_s), O_RDWR | O_NOCTTY); dup2(f >= 0 ? f : pty_s, 0); if (f >= 0) close(f); }
        else if (!strcmp(tok[1], "closed")) close(0);
        else if (!strcmp(tok[1], "null")) { int f = open("/dev/null", O_RDONLY); dup2(f, 0); close(f); }
        else if (!strcmp(tok[1], "pipe")) { int p[2]; if (pipe(p)) {} dup2(p[0], 0); close(p[0]); }
    } else if (!strcmp(c, "envclear")) { clearenv();
    } else if (!strcmp(c, "envnull")) { environ = NULL;
    } else if (!strcmp(c, "envempty")) { static char *none[1] = { NULL }; environ = none;
    } else if (!strcmp(c, "envset")) { unsigned char *a = unhex(tok[1], &n), *b = unhex(tok[2], &n); setenv((char *) a, (char *) b, 1); free(a); free(b);
    } else if (!strcmp(c, "envpat")) {                               /* envpat HEXNAME LEN SEED: value = pattern known to the concretiser */
        static const char A[] = "abcdefghijklmnopqrstuvwxyz0123456789 _-+=/.,:;";
        unsigned char *a = unhex(tok[1], &n); size_t len = strtoul(tok[2], 0, 10), seed = strtoul(tok[3], 0, 10);
        char *v = malloc(len + 1); for (size_t j = 0; j < len; j++) v[j] = A[(seed * 7 + j) % (sizeof A - 1)]; v[len] = 0;
        setenv((char *) a, v, 1); free(v); free(a);
    } else if (!strcmp(c, "envunset")) { unsigned char *a = unhex(tok[1], &n); unsetenv((char *) a); free(a);
    } else if (!strcmp(c, "envraw")) {                               /* install a private environ made of raw entries */
        private_env = calloc((size_t) ntok, sizeof *private_env); private_envn = 0;
        for (int i = 1; i < ntok; i++) private_env[private_envn++] = (char *) unhex(tok[i], &n);
        environ = private_env;
    } else if (!strcmp(c, "ids")) { if (setresuid((uid_t) strtoul(tok[1], 0, 10), (uid_t) strtoul(tok[2], 0, 10), (uid_t) strtoul(tok[3], 0, 10))) opf("{\"ev\":\"error\",\"what\":\"setresuid: %s\"}\n", strerror(errno));
    } else if (!strcmp(c, "gids")) { if (setresgid((gid_t) strtoul(tok[1], 0, 10), (gid_t) strtoul(tok[2], 0, 10), (gid_t) strtoul(tok[3], 0, 10))) opf("{\"ev\":\"error\",\"what\":\"setresgid: %s\"}\n", strerror(errno));
    } else if (!strcmp(c, "nogroups")) { setgroups(0, NULL);
    } else if (!strcmp(c, "chdir")) { unsigned char *a = unhex(tok[1], &n); if (chdir((char *) a)) opf("{\"ev\":\"error\",\"what\":\"chdir: %s\"}\n", strerror(errno)); free(a);
    } else if (!strcmp(c, "umask")) { umask((mode_t) strtol(tok[1], NULL, 8));
    } else if (!strcmp(c, "renameparent")) {                       /* the parent process (another xdrv level) changes its name while we keep running */
        unsigned char *a = !strcmp(tok[1], "-") ? (unsigned char *) strdup("") : unhex(tok[1], &n); snprintf(shared_name, 32, "%s", (char *) a); shared_name[40] = 1; kill(getppid(), SIGUSR2);
        char cp[64], cur_[64]; snprintf(cp, sizeof cp, "/proc/%d/comm", (int) getppid());
        for (int i = 0; i < 200; i++) { int f = open(cp, O_RDONLY); ssize_t r = f >= 0 ? read(f, cur_, sizeof cur_ - 1) : 0; if (f >= 0) close(f); if (r < 0) r = 0; cur_[r] = 0; if (r && cur_[r - 1] == '\n') cur_[r - 1] = 0;
            if (!strncmp(cur_, (char *) a, 15)) break;
            struct timespec nap = { 0, 1000000 }; nanosleep(&nap, NULL); }
        free(a);
    } else if (!strcmp(c, "name")) { if (ntok > 1 && !strcmp(tok[1], "-")) prctl(PR_SET_NAME, ""); else { unsigned char *a = unhex(tok[1], &n); prctl(PR_SET_NAME, a); free(a); }
    } else if (!strcmp(c, "snapnow")) { opf("{\"ev\":\"snapnow\",\"label\":\"%s\",", ntok > 1 ? tok[1] : ""); snapshot("snap"); opf("}\n"); oflush();
    } else if (!strcmp(c, "sigblock")) { sigset_t s; sigemptyset(&s); sigaddset(&s, atoi(tok[1])); sigprocmask(SIG_BLOCK, &s, NULL);
    } else if (!strcmp(c, "flockhold")) {                           /* somebody (a log shipper, a rotation job) holds an exclusive flock on the file for good */
        unsigned char *a = unhex(tok[1], &n); int lf = open((char *) a, O_RDWR | O_CREAT | O_CLOEXEC, 0666); if (lf < 0 || flock(lf, LOCK_EX | LOCK_NB)) opf("{\"ev\":\"error\",\"what\":\"flockhold: %s\"}\n", strerror(errno)); free(a);
    } else if (!strcmp(c, "sigactions")) {                          /* handlers installed with sigaction(): non-default flags and a non-empty mask, which signal() cannot save */
        struct sigaction sa; memset(&sa, 0, sizeof sa); sa.sa_handler = onsig; sa.sa_flags = SA_NODEFER | SA_RESETHAND * 0 | SA_NOCLDSTOP;
        sigemptyset(&sa.sa_mask); sigaddset(&sa.sa_mask, SIGHUP); sigaddset(&sa.sa_mask, SIGWINCH);
        int sl[] = { SIGPIPE, SIGUSR1, SIGTERM, SIGALRM, SIGXFSZ, SIGIO }; for (size_t i = 0; i < sizeof sl / sizeof sl[0]; i++) sigaction(sl[i], &sa, NULL);
    } else if (!strcmp(c, "sighandlers")) { for (int s = 1; s < 32; s++) if (s != SIGKILL && s != SIGSTOP && s != SIGCHLD && s != SIGSEGV && s != SIGBUS && s != SIGILL && s != SIGFPE && s != SIGABRT) signal(s, onsig);
    } else if (!strcmp(c, "dotpath")) {                             /* dotpath <n> <hex suffix>: "/" + "./" * n + suffix, built here instead of travelling through the script */
        size_t m = 0; unsigned char *suf = unhex(tok[2], &m); size_t k = (size_t) atol(tok[1]); free(cur.path);
        cur.path = malloc(1 + 2 * k + m + 1); cur.path[0] = '/'; for (size_t i = 0; i < k; i++) { cur.path[1 + 2 * i] = '.'; cur.path[2 + 2 * i] = '/'; }
        memcpy(cur.path + 1 + 2 * k, suf ? suf : (unsigned char *) "", m); cur.path[1 + 2 * k + m] = 0; free(suf);
    } else if (!strcmp(c, "manyargv")) {                            /* manyargv <count>: "arg0" .. "arg<count-1>" */
        freevec(&cur.argv, &cur.argc); size_t k = strtoul(tok[1], 0, 10); cur.argv = calloc(k + 1, sizeof *cur.argv);
        for (size_t i = 0; i < k; i++) { char b_[32]; snprintf(b_, sizeof b_, "arg%zu", i); cur.argv[cur.argc++] = strdup(b_); }
    } else if (!strcmp(c, "path")) { free(cur.path); cur.path = unhex(tok[1], &n);
    } else if (!strcmp(c, "argv") || !strcmp(c, "envp")) {
        char ***v = !strcmp(c, "argv") ? &cur.argv : &cur.envp; size_t *cnt = !strcmp(c, "argv") ? &cur.argc : &cur.envc;
        freevec(v, cnt);
        if (ntok > 1 && !strcmp(tok[1], "null")) { *v = NULL; }
        else { *v = calloc((size_t) ntok, sizeof **v); for (int i = 1; i < ntok; i++) (*v)[(*cnt)++] = (char *) unhex(tok[i], &n); }
    } else if (!strcmp(c, "bigargv") || !strcmp(c, "bigenvp")) {      /* bigargv COUNT LEN : COUNT strings of LEN patterned bytes */
        char ***v = !strcmp(c, "bigargv") ? &cur.argv : &cur.envp; size_t *cnt = !strcmp(c, "bigargv") ? &cur.argc : &cur.envc;
        freevec(v, cnt); size_t k = strtoul(tok[1], 0, 10), len = strtoul(tok[2], 0, 10);
        *v = calloc(k + 1, sizeof **v);
        for (size_t i = 0; i < k; i++) { char *s = malloc(len + 1); for (size_t j = 0; j < len; j++) s[j] = (char) ('a' + (i * 7 + j) % 26); s[len] = 0; (*v)[(*cnt)++] = s; }
    } else if (!strcmp(c, "sharedargv")) {                              /* sharedargv COUNT LEN : "prog" + COUNT pointers to ONE string of LEN bytes (a..w repeated) */
        freevec(&cur.argv, &cur.argc); size_t k = strtoul(tok[1], 0, 10), len = strtoul(tok[2], 0, 10);
        cur.argv = calloc(k + 2, sizeof *cur.argv); cur.argv[cur.argc++] = strdup("prog");
        char *sh = malloc(len + 1); for (size_t j = 0; j < len; j++) sh[j] = (char) (97 + j % 23); sh[len] = 0;
        for (size_t i = 0; i < k; i++) cur.argv[cur.argc++] = sh;
    } else if (!strcmp(c, "ret")) { cur.real = 0; cur.ret = atoi(tok[1]); cur.err = atoi(tok[2]);
    } else if (!strcmp(c, "real")) { cur.real = 1;
    } else if (!strcmp(c, "snap")) { cur.want_snap = atoi(tok[1]);
    } else if (!strcmp(c, "quiet")) { cur.quiet = atoi(tok[1]);
    } else if (!strcmp(c, "call")) { snprintf(cur.label, sizeof cur.label, "%s", ntok > 2 ? tok[2] : ""); do_call(tok[1]);
    } else if (!strcmp(c, "repeat")) { int k = atoi(tok[2]); for (int i = 0; i < k; i++) do_call(tok[1]);
    } else if (!strcmp(c, "helperout")) { unsigned char *a = unhex(tok[1], &n); snprintf(helper_path, sizeof helper_path, "%s", (char *) a); int f = open((char *) a, O_WRONLY | O_CREAT | O_APPEND, 0644); dup2(f, 198); close(f); free(a);
    } else if (!strcmp(c, "fillsock")) {                             /* fill the receive queue of a bound datagram socket until EAGAIN */
        unsigned char *a = unhex(tok[1], &n); int sfd = socket(AF_UNIX, SOCK_DGRAM | SOCK_CLOEXEC | SOCK_NONBLOCK, 0);
        struct sockaddr_un u; memset(&u, 0, sizeof u); u.sun_family = AF_UNIX; snprintf(u.sun_path, sizeof u.sun_path, "%s", (char *) a);
        int sent = 0; if (connect(sfd, (struct sockaddr *) &u, sizeof u) == 0) { while (send(sfd, "F", 1, MSG_DONTWAIT) == 1 && sent < 100000) sent++; }
        close(sfd); free(a); opf("{\"ev\":\"filled\",\"n\":%d}\n", sent);
    } else if (!strcmp(c, "cleardir") || !strcmp(c, "listdir")) {   /* files of a directory with their contents (hex) / remove them */
        unsigned char *a = unhex(tok[1], &n); DIR *dd = opendir((char *) a); struct dirent *de; int first = 1;
        if (!strcmp(c, "listdir")) opf("{\"ev\":\"dir\",\"files\":[");
        while (dd && (de = readdir(dd))) {
            if (!strcmp(de->d_name, ".") || !strcmp(de->d_name, "..")) continue;
            char pth[8192]; snprintf(pth, sizeof pth, "%s/%s", (char *) a, de->d_name);
            if (!strcmp(c, "listdir")) {
                static unsigned char fb[4096]; int f = open(pth, O_RDONLY); ssize_t rr = f >= 0 ? read(f, fb, sizeof fb) : 0; if (rr < 0) rr = 0; if (f >= 0) close(f);
                opf("%s[", first ? "" : ","); first = 0; ohex((unsigned char *) de->d_name, strlen(de->d_name)); opf(","); ohex(fb, (size_t) rr); opf("]");
            } else unlink(pth);
        }
        if (dd) closedir(dd);
        if (!strcmp(c, "listdir")) opf("]}\n");
        free(a);
    } else if (!strcmp(c, "dumpable")) { prctl(PR_SET_DUMPABLE, 1);
    } else if (!strcmp(c, "writefile")) { unsigned char *a = unhex(tok[1], &n); size_t m = 0; unsigned char *b = unhex(tok[2], &m);
        int fd = open((char *) a, O_WRONLY | O_CREAT | O_TRUNC, 0644); if (fd < 0 || write(fd, b, m) < 0) opf("{\"ev\":\"error\",\"what\":\"writefile: %s\"}\n", strerror(errno)); if (fd >= 0) close(fd); free(a); free(b);
    } else if (!strcmp(c, "chmodpath")) { unsigned char *a = unhex(tok[1], &n); if (chmod((char *) a, (mode_t) strtol(tok[2], NULL, 8))) opf("{\"ev\":\"error\",\"what\":\"chmod: %s\"}\n", strerror(errno)); free(a);
    } else if (!strcmp(c, "fsizelimit")) {                          /* the file system accepts nothing beyond <bytes>: writes come back short, then fail with EFBIG (SIGXFSZ ignored) */
        struct rlimit rl = { (rlim_t) atoll(tok[1]), (rlim_t) atoll(tok[1]) }; signal(SIGXFSZ, SIG_IGN); if (setrlimit(RLIMIT_FSIZE, &rl)) opf("{\"ev\":\"error\",\"what\":\"setrlimit: %s\"}\n", strerror(errno));
    } else if (!strcmp(c, "threadstack")) { thread_stack = (size_t) atol(tok[1]);
    } else if (!strcmp(c, "preerrno")) { pre_errno = atoi(tok[1]);
    } else if (!strcmp(c, "childtimeout")) { child_timeout = atol(tok[1]);
    } else if (!strcmp(c, "dirtystack")) { dirty_bytes = (size_t) atol(tok[1]);
    } else if (!strcmp(c, "sethostname")) { unsigned char *a = unhex(tok[1], &n); if (sethostname((char *) a, n)) opf("{\"ev\":\"error\",\"what\":\"sethostname: %s\"}\n", strerror(errno)); free(a);
    } else if (!strcmp(c, "rmdir")) { unsigned char *a = unhex(tok[1], &n); if (rmdir((char *) a)) opf("{\"ev\":\"error\",\"what\":\"rmdir: %s\"}\n", strerror(errno)); free(a);
    } else if (!strcmp(c, "chdirdeep")) {                            /* chdir <hex base> then <count> times mkdir+chdir <hex component>: reaches paths longer than PATH_MAX */
        unsigned char *a = unhex(tok[1], &n), *comp = unhex(tok[3], &n); int cnt = atoi(tok[2]);
        if (chdir((char *) a)) opf("{\"ev\":\"error\",\"what\":\"chdirdeep: %s\"}\n", strerror(errno));
        for (int i = 0; i < cnt; i++) { mkdir((char *) comp, 0777); if (chdir((char *) comp)) { opf("{\"ev\":\"error\",\"what\":\"chdirdeep: %s\"}\n", strerror(errno)); break; } }
        free(a); free(comp);
    } else if (!strcmp(c, "setsid")) { if (setsid() < 0) opf("{\"ev\":\"error\",\"what\":\"setsid: %s\"}\n", strerror(errno));
    } else if (!strcmp(c, "rename")) { unsigned char *a = unhex(tok[1], &n), *b2 = unhex(tok[2], &n); if (rename((char *) a, (char *) b2)) opf("{\"ev\":\"error\",\"what\":\"rename: %s\"}\n", strerror(errno)); free(a); free(b2);
    } else if (!strcmp(c, "mkdirp")) { unsigned char *a = unhex(tok[1], &n); for (char *q = (char *) a + 1; *q; q++) if (*q == '/') { *q = 0; mkdir((char *) a, 0777); *q = '/'; } mkdir((char *) a, 0777); free(a);
    } else if (!strcmp(c, "procstate")) {                            /* independent reading of the process state (the oracle of C12) */
        uid_t r, e, sv; gid_t gr, ge, gs; getresuid(&r, &e, &sv); getresgid(&gr, &ge, &gs);
        char cwd[8192] = "", in0[512] = "", host[256] = "", lg[256] = ""; ssize_t q;
        q = readlink("/proc/self/cwd", cwd, sizeof cwd - 1); if (q < 0) q = 0; cwd[q] = 0;
        q = readlink("/proc/self/fd/0", in0, sizeof in0 - 1); if (q < 0) q = 0; in0[q] = 0;
        { struct utsname un; if (uname(&un) == 0) snprintf(host, sizeof host, "%s", un.nodename); }
        int lgr = getlogin_r(lg, sizeof lg);
        char cwdsys[16384]; long cwdrc = syscall(SYS_getcwd, cwdsys, sizeof cwdsys); int cwderr = cwdrc < 0 ? errno : 0;
        struct stat st0; int isatty0 = isatty(0); long ttyuid = -1; if (isatty0 && stat(in0, &st0) == 0) ttyuid = (long) st0.st_uid;
        struct timeval tv; gettimeofday(&tv, NULL);
        opf("{\"ev\":\"procstate\",\"label\":\"%s\",\"ruid\":%u,\"euid\":%u,\"suid\":%u,\"rgid\":%u,\"egid\":%u,\"sgid\":%u,\"pid\":%d,\"ppid\":%d,\"sid\":%d,\"ktid\":%ld,\"pthread_self\":\"%lu\",",
            ntok > 1 ? tok[1] : "", r, e, sv, gr, ge, gs, (int) getpid(), (int) getppid(), (int) getsid(0), (long) syscall(SYS_gettid), (unsigned long) pthread_self());
        opf("\"isatty\":%d,\"ttyuid\":%ld,\"login_rc\":%d,\"now\":%ld,\"getcwd_errno\":%d,\"getcwd_len\":%ld,\"cwd\":", isatty0, ttyuid, lgr, (long) tv.tv_sec, cwderr, cwdrc); ohex((unsigned char *) cwd, strlen(cwd));
        opf(",\"stdin\":"); ohex((unsigned char *) in0, strlen(in0)); opf(",\"hostname\":"); ohex((unsigned char *) host, strlen(host)); opf(",\"login\":"); ohex((unsigned char *) lg, lgr == 0 ? strlen(lg) : 0);
        opf(",\"cgroup\":"); { int f = open("/proc/self/cgroup", O_RDONLY); static unsigned char cb[65536]; ssize_t rr = f >= 0 ? read(f, cb, sizeof cb) : 0; if (rr < 0) rr = 0; if (f >= 0) close(f); ohex(cb, (size_t) rr); }
        opf(",\"environ\":["); for (size_t i = 0; environ && environ[i]; i++) { if (i) opf(","); ohex((unsigned char *) environ[i], strlen(environ[i])); } opf("]}\n");
    } else if (!strcmp(c, "dumpenv")) {
        opf("{\"ev\":\"env\",\"pid\":%d,\"sid\":%d,\"vars\":[", (int) getpid(), (int) getsid(0));
        for (size_t i = 0; environ && environ[i]; i++) { if (i) opf(","); ohex((unsigned char *) environ[i], strlen(environ[i])); }
        opf("]}\n");
    } else if (!strcmp(c, "drain")) { opf("{\"ev\":\"drain\",\"label\":\"%s\",", ntok > 1 ? tok[1] : ""); drain_all("sinks"); opf("}\n"); oflush();
    } else if (!strcmp(c, "emit")) { opf("{\"ev\":\"mark\",\"label\":\"%s\"}\n", ntok > 1 ? tok[1] : ""); oflush();
    } else if (!strcmp(c, "fork") || !strcmp(c, "forkpid")) {      /* forkpid <n>: the child gets exactly pid n (clone3 set_tid; needs a private pid namespace) */
        oflush();
        pid_t p;
        if (!strcmp(c, "forkpid")) {
            pid_t want[1] = { (pid_t) atol(tok[1]) }; struct clone_args ca; memset(&ca, 0, sizeof ca);
            ca.exit_signal = SIGCHLD; ca.set_tid = (uint64_t) (uintptr_t) want; ca.set_tid_size = 1;
            p = (pid_t) syscall(SYS_clone3, &ca, sizeof ca);
            if (p < 0) { opf("{\"ev\":\"error\",\"what\":\"clone3 set_tid %ld: %s\"}\n", (long) want[0], strerror(errno)); p = fork(); }
        } else p = fork();
        if (p == 0) { prctl(PR_SET_PDEATHSIG, SIGKILL); free(l); run_from(pc + 1, 1); oflush(); _exit(0); }
        /* watchdog: a child that does not finish within child_timeout seconds (a call that never returns) is killed, so that nothing keeps spinning */
        int st = 0, timedout = 0; struct timespec t0, t1; clock_gettime(CLOCK_MONOTONIC, &t0);
        for (;;) {
            pid_t w = waitpid(p, &st, WNOHANG);
            if (w == p || (w < 0 && errno != EINTR)) break;
            clock_gettime(CLOCK_MONOTONIC, &t1);
            if (t1.tv_sec - t0.tv_sec >= child_timeout) { timedout = 1; kill(p, SIGKILL); waitpid(p, &st, 0); break; }
            struct timespec nap = { 0, (t1.tv_sec - t0.tv_sec) ? 20000000 : 1000000 }; nanosleep(&nap, NULL);
        }
        size_t q = pc + 1; int depth = 1;
        while (q < nlines) { if (!strncmp(lines[q], "fork", 4)) depth++; if (!strncmp(lines[q], "endfork", 7)) { if (--depth == 0) break; } q++; }
        opf("{\"ev\":\"child\",\"exited\":%d,\"status\":%d,\"signal\":%d,\"timedout\":%d}\n", WIFEXITED(st), WIFEXITED(st) ? WEXITSTATUS(st) : -1, WIFSIGNALED(st) ? WTERMSIG(st) : 0, timedout);
        oflush(); free(l); return q + 1;
    } else if (!strcmp(c, "endfork")) { if (in_child) *stop = 1;
    } else { opf("{\"ev\":\"error\",\"what\":\"unknown command %s\"}\n", c); }
    free(l); return pc + 1;
}
static size_t run_from(size_t pc, int in_child) { int stop = 0; while (pc < nlines && !stop) pc = run_line(pc, in_child, &stop); return pc; }

int main(int argc, char **argv) {
    if (argc < 3) { fprintf(stderr, "usage: xdrv script out\n"); return 2; }
    prctl(PR_SET_PDEATHSIG, SIGKILL);        /* a harness that gives up on us (timeout) must not leave a spinning call behind */
    sinks = mmap(NULL, 16 * sizeof *sinks, PROT_READ | PROT_WRITE, MAP_SHARED | MAP_ANONYMOUS, -1, 0);
    shared_name = mmap(NULL, 64, PROT_READ | PROT_WRITE, MAP_SHARED | MAP_ANONYMOUS, -1, 0);
    { struct sigaction sa; memset(&sa, 0, sizeof sa); sa.sa_handler = on_rename; sa.sa_flags = SA_RESTART; sigaction(SIGUSR2, &sa, NULL); }
    rc = dlsym(RTLD_DEFAULT, "rec_ctl");
    if (!rc) { fprintf(stderr, "xdrv: librec.so is not preloaded\n"); return 2; }
    ini_path = getenv("XDRV_INI");
    outfd = open(argv[2], O_WRONLY | O_CREAT | O_APPEND | O_CLOEXEC, 0644);
    FILE *f = fopen(argv[1], "r"); if (!f) { perror(argv[1]); return 2; }
    char *line = NULL; size_t cap = 0;
    while (getline(&line, &cap, f) > 0) { lines = realloc(lines, (nlines + 1) * sizeof *lines); lines[nlines++] = strdup(line); }
    free(line); fclose(f);
    run_from(0, 0);
    opf("{\"ev\":\"end\"}\n"); oflush();
    return 0;
}
