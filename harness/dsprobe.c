/*
 * dsprobe - per-data-source / filter / output buffer contract probe for C02. Built with -fsanitize=address,undefined
 * against the sanitizer build of the working tree's archives. Every data source is called through the registry with a
 * heap buffer of EXACTLY n bytes (so a one-byte overrun is an ASan report) and must leave a NUL inside it.
 *   stdin lines:  ds <name> <n> <argclass> | flt <name> <argclass> | state <name> | list
 */
#define _GNU_SOURCE
#include <stdio.h>
#include <stdlib.h>
#include <string.h>
#include <unistd.h>
#include "snoopy.h"
#include "init-deinit.h"
#include "configuration.h"
#include "inputdatastorage.h"
#include "datasourceregistry.h"
#include "filterregistry.h"
extern char **environ;
static char *mkpat(size_t n, int seed) { char *s = malloc(n + 1); for (size_t i = 0; i < n; i++) s[i] = (char) ('a' + (seed + i) % 26); s[n] = 0; return s; }
static const char *argfor(const char *cls) {
    if (!strcmp(cls, "empty")) return "";
    if (!strcmp(cls, "x")) return "x";
    if (!strcmp(cls, "zero")) return "0";
    if (!strcmp(cls, "fmt")) return "%Y-%m-%d %H:%M:%S %z %A %B";
    if (!strcmp(cls, "fmtlong")) return "%c%c%c%c%c%c%c%c%c%c%c%c%c%c%c%c%c%c%c%c";
    if (!strcmp(cls, "envname")) return "PROBEVAR";
    if (!strcmp(cls, "long")) return mkpat(1000, 3);
    if (!strcmp(cls, "pct")) return "%s%n%{x}";
    return cls;
}
int main(int argc, char **argv) {
    if (argc < 2) return 2;
    snoopy_configuration_preinit_enableAltConfigFileParsing(argv[1]);
    static char *cargv_long[600]; for (int i = 0; i < 599; i++) cargv_long[i] = mkpat(7 + i % 5, i); cargv_long[599] = NULL;
    static char *cargv_short[] = { "prog", "a b", NULL };
    char **cargv = cargv_short;
    setenv("PROBEVAR", "value of the probe variable", 1);
    char line[4096];
    setvbuf(stdout, NULL, _IONBF, 0);
    while (fgets(line, sizeof line, stdin)) {
        char k[32] = "", name[256] = "", cls[64] = ""; long n = 0;
        line[strcspn(line, "\n")] = 0;
        if (!strncmp(line, "list", 4)) {
            for (int i = 0; i < snoopy_datasourceregistry_getCount(); i++) printf("DS %s\n", snoopy_datasourceregistry_getName(i));
            for (int i = 0; i < snoopy_filterregistry_getCount(); i++) printf("FLT %s\n", snoopy_filterregistry_getName(i));
            continue;
        }
        if (sscanf(line, "%31s %255s %ld %63s", k, name, &n, cls) < 2) continue;
        if (!strcmp(k, "state")) {
            if (!strcmp(name, "envnull")) environ = NULL;
            else if (!strcmp(name, "envempty")) { static char *none[1] = { NULL }; environ = none; }
            else if (!strcmp(name, "envhuge")) { for (int i = 0; i < 400; i++) { char nm[32]; snprintf(nm, sizeof nm, "HUGE%d", i); setenv(nm, mkpat(50 + i, i), 1); } }
            else if (!strncmp(name, "sudo", 4) && atoi(name + 4) > 0) { setenv("SUDO_USER", mkpat((size_t) atoi(name + 4), 5), 1); setenv("LOGNAME", "lognamer", 1); }
            else if (!strncmp(name, "logname", 7) && atoi(name + 7) > 0) { unsetenv("SUDO_USER"); setenv("LOGNAME", mkpat((size_t) atoi(name + 7), 6), 1); }
            else if (!strcmp(name, "argvlong")) cargv = cargv_long;
            else if (!strcmp(name, "argvnull")) cargv = NULL;
            printf("STATE %s\n", name);
            continue;
        }
        printf("BEGIN %s\n", line);
        snoopy_init();
        snoopy_inputdatastorage_store_filename("/usr/bin/some-program-path");
        snoopy_inputdatastorage_store_argv(cargv);
        snoopy_inputdatastorage_store_envp(environ);
        if (!strcmp(k, "ds") || !strcmp(k, "dsv")) {
            char *buf = malloc((size_t) n); memset(buf, 0x55, (size_t) n);
            int r = snoopy_datasourceregistry_callByName(name, buf, (size_t) n, argfor(cls));
            int nul = memchr(buf, 0, (size_t) n) != NULL;
            size_t len = nul ? strlen(buf) : (size_t) n;
            if (!strcmp(k, "dsv")) { printf("VAL "); for (size_t q = 0; q < len; q++) printf("%02x", (unsigned char) buf[q]); printf("\n"); }
            printf("END ret=%d len=%zu nul=%d\n", r, len, nul);
            free(buf);
        } else if (!strcmp(k, "flt")) {
            sscanf(line, "%31s %255s %63s", k, name, cls);
            int r = snoopy_filterregistry_callByName(name, argfor(cls));
            printf("END ret=%d len=0 nul=1\n", r);
        }
        snoopy_cleanup();
    }
    return 0;
}
