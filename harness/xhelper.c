/* xhelper - the image a "really replaced" exec lands in: dumps its argv and envp to fd 198 and exits 0. Static. */
#include <string.h>
#include <unistd.h>
static void put(const char *s) { if (write(198, s, strlen(s) + 1) < 0) {} }
int main(int argc, char **argv, char **envp) {
    put("ARGV"); for (int i = 0; i < argc; i++) put(argv[i]);
    put("ENVP"); for (char **e = envp; *e; e++) put(*e);
    put("END");
    return 0;
}
